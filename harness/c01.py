"""C01 - 1D construction: each value counted once, in the bin that contains it."""
from __future__ import annotations

import itertools

import z3

from symx.api import Harness, Raised, register

from .common import consecutive, in_bin, rising_pairs, snap1d, tolerance_band, zsum


@register
class C01Facade(Harness):
    prop = "C01"
    group = "h1"
    bounds_doc = "N data values (NaN-able reals), M bins (edges | pairs | StaticBinning), weights none/int/real, dtype, keep_missed"
    assumptions_doc = ("C01 dtype=float32 instances: weights are integers <= 2000 or multiples of 0.25 <= 500, so that squares and sums are exact in binary32 (binary32 rounding is not modelled)",
                       "C01 16/32-bit integer dtype instances: integer weights <= 100 / <= 2000, so that sums of squares stay inside the type (wrap-around of narrow integers is not the property's subject)")

    def instances(self, tier):
        if tier == "quick":
            combos = [((n, m), spec, wk, keep, None) for (n, m) in [(n, m) for n in (0, 1, 2) for m in (1, 2)] + [(3, 1), (3, 2)]
                      for spec in ("edges", "pairs") for wk in ("none", "int", "real") for keep in (True, False) if not (not keep and spec == "pairs")]
        else:
            base = [(n, m) for n in (0, 1, 2, 3) for m in (1, 2, 3)]
            combos = [(g, spec, wk, keep, None) for g in base for spec in ("edges", "pairs", "static") for wk in ("none", "int", "real") for keep in (True, False)
                      if not (g[0] >= 3 and g[1] >= 3 and (wk == "real" or spec == "static"))]
            combos += [(g, spec, wk, True, None) for g in ((4, 1), (4, 2)) for spec in ("edges", "pairs") for wk in ("none", "int")]
            combos += [(g, spec, wk, keep, dt) for g in ((1, 1), (2, 2)) for spec in ("edges", "pairs") for wk in ("none", "int", "real") for keep in (True, False)
                       for dt in ("float64", "int64", "float32")]
        # fixed-width binning objects / the "fixed_width" method with an explicit range (right edge flag False by default)
        for spec in ("fwb", "fixed_range"):
            for (n, m) in ([(1, 1), (2, 2)] if tier == "quick" else [(1, 1), (2, 2), (3, 2), (2, 3)]):
                for wk in ("none", "real") if tier == "quick" else ("none", "int", "real"):
                    for width in ((1.0,) if tier == "quick" else (1.0, 0.5)):
                        yield (f"h1-N{n}-M{m}-{spec}-w{wk}-bw{width}", dict(N=n, M=m, spec=spec, weights=wk, keep_missed=True, dtype=None, nan=(n <= 2), width=width))
        # bins chosen by a method that looks at the data ("quantile"): weights must stay aligned with their (unsorted) values
        for n in (2, 3):
            yield (f"h1-N{n}-M2-quantile-wreal", dict(N=n, M=2, spec="quantile", weights="real", keep_missed=True, dtype=None, nan=False))
        # a genuine gap that is small relative to the edges (2.5e-6..5e-6 |edge|): inside is_consecutive's relative tolerance
        for n in (1, 2):
            yield (f"h1-N{n}-M2-pairs-smallgap", dict(N=n, M=2, spec="pairs", weights="real", keep_missed=True, dtype=None, nan=False, small=True))
        for (n, m), spec, wk, keep, dt in combos:
            yield (f"h1-N{n}-M{m}-{spec}-w{wk}-k{int(keep)}-d{dt}",
                   dict(N=n, M=m, spec=spec, weights=wk, keep_missed=keep, dtype=dt, nan=(n <= 2)))
        # dropna=False with explicit bins: data containing a NaN are refused (never counted as overflow); unsigned dtypes are integer dtypes too
        for spec, wk in (("edges", "int"), ("pairs", "real")):   # (gapped pairs with integer contents: see the known finding C01-gapped-int-dtype)
            yield (f"h1-N2-M2-{spec}-w{wk}-dropna0", dict(N=2, M=2, spec=spec, weights=wk, keep_missed=True, dtype=None, nan=True, dropna=False))
        yield ("h1-N1-M1-fwb-wreal-dropna0", dict(N=1, M=1, spec="fwb", weights="real", keep_missed=True, dtype=None, nan=True, dropna=False, width=1.0))
        # weights that are an unsigned-integer array (no dtype requested): an integer histogram like for any integer weights
        yield ("h1-N2-M2-edges-wuint32-k1-dNone", dict(N=2, M=2, spec="edges", weights="int", keep_missed=True, dtype=None, nan=False, wdtype="uint32"))
        for dt, wk in (("uint16", "real"), ("uint32", "int"), ("uint64", "real"), ("int16", "real")):
            yield (f"h1-N2-M2-edges-w{wk}-k1-d{dt}", dict(N=2, M=2, spec="edges", weights=wk, keep_missed=True, dtype=dt, nan=False))
        # multi-dimensional data in non-C memory layouts (transposed / strided / reversed views) with element-wise weights
        for layout in ("transposed", "strided", "reversed"):
            for dropna in (True, False):
                yield (f"h1-layout-{layout}-dropna{int(dropna)}",
                       dict(N=4, M=1, spec="edges", weights="int", keep_missed=True, dtype=None, nan=dropna, layout=layout, dropna=dropna))

    def declare(self, cx, p):
        N, M = p["N"], p["M"]
        if p.get("layout"):
            return self._declare_layout(cx, p)
        x = {"v": cx.reals("v", N, nan=p["nan"])}
        f32 = p["dtype"] == "float32"  # binary32 rounding is not modelled: weights whose squares and sums are exact in binary32
        narrow = {"float32": 2000, "uint32": 2000, "int32": 2000, "uint16": 100, "int16": 100}.get(p["dtype"] or p.get("wdtype"))   # sums of squares stay inside the type
        if p["weights"] == "int":
            x["w"] = cx.ints("w", N, lo=0, hi=narrow)
        elif p["weights"] == "real" and f32:
            x["w"] = [k * 0.25 for k in cx.ints("wq", N, lo=0, hi=2000)]
        elif p["weights"] == "real":
            x["w"] = cx.reals("w", N)
            if cx.sym:
                cx.assume(*[w >= 0 for w in x["w"]])
        if cx.sym and p["spec"] in ("fwb", "fixed_range", "edges", "quantile"):
            cx.define("gapped", z3.BoolVal(False))
            cx.define("small_gap", z3.BoolVal(False))
        if p["spec"] == "quantile":
            if cx.sym:
                v = [cx.t(i) for i in x["v"]]
                cx.assume(*[v[i] != v[j] for i in range(N) for j in range(i)])     # distinct values: strictly rising quantile edges
            return x
        if p["spec"] in ("fwb", "fixed_range"):
            x["t"] = cx.pyint("t", -3, 3)
        elif p["spec"] == "edges":
            x["e"] = cx.reals("e", M + 1)
            if cx.sym:
                cx.assume(*[x["e"][j] < x["e"][j + 1] for j in range(M)])
        else:
            x["l"], x["r"] = cx.reals("l", M), cx.reals("r", M)
            if not cx.sym:
                return x
            L, R = [cx.t(i) for i in x["l"]], [cx.t(i) for i in x["r"]]
            if p.get("small"):
                ar = z3.If(R[0] >= 0, R[0], -R[0])
                cx.assume(rising_pairs(L, R), ar >= 1, L[1] - R[0] >= ar / 400000, L[1] - R[0] <= ar / 200000)
            else:
                cx.assume(rising_pairs(L, R), tolerance_band(L, R))
            cx.define("gapped", z3.Not(consecutive(L, R)))
            cx.define("small_gap", z3.BoolVal(bool(p.get("small"))))
        return x

    def _declare_layout(self, cx, p):
        x = {"v": cx.reals("v", 4, nan=p["dropna"]), "w": cx.ints("w", 4, lo=0), "e": cx.reals("e", 2)}
        if cx.sym:
            cx.assume(x["e"][0] < x["e"][1])
            cx.define("gapped", z3.BoolVal(False))
            cx.define("small_gap", z3.BoolVal(False))
        return x

    def witness_hints(self, cx, p, x):
        if not p.get("small"):
            return []
        ints = [z3.ToReal(z3.ToInt(cx.t(v) * 4)) == cx.t(v) * 4 for v in list(x["l"]) + list(x["r"]) + list(x["v"]) + list(x["w"])]
        return [[cx.t(x["r"][0]) == 2 ** 20, cx.t(x["l"][1]) == 2 ** 20 + 4] + ints]

    def drive(self, E, p, x):
        np = E.np
        h1 = E.mod("physt._facade").h1
        if p.get("layout"):
            v, w = x["v"], x["w"]
            base = np.asarray([[v[0], v[1]], [v[2], v[3]]], dtype=float)
            wb = np.asarray([[w[0], w[1]], [w[2], w[3]]], dtype=int)
            if p["layout"] == "transposed":      # logical element order v0 v2 v1 v3, memory order v0 v1 v2 v3
                data, wts = base.T, wb.T
            elif p["layout"] == "strided":
                data, wts = np.asarray([[v[0], 0.0, v[1], 0.0], [v[2], 0.0, v[3], 0.0]], dtype=float)[:, ::2], wb
            else:
                data, wts = base[::-1], wb[::-1]
            h = E.attempt(h1, data, np.asarray(x["e"]), weights=wts, dropna=p["dropna"])
            if isinstance(h, Raised):
                return {"raised": h}
            return snap1d(E, h, stats=True)
        kw = {}
        if p["spec"] == "quantile":
            h = E.attempt(h1, np.asarray(list(x["v"]), dtype=float), "quantile", bin_count=2, weights=np.asarray(list(x["w"]), dtype=float))
            if isinstance(h, Raised):
                return {"raised": h}
            return snap1d(E, h, stats=True)
        if p["spec"] == "fwb":
            bins = E.mod("physt.binnings").FixedWidthBinning(bin_width=p["width"], bin_count=p["M"], bin_times_min=x["t"])
        elif p["spec"] == "fixed_range":
            bins = "fixed_width"
            kw.update(bin_width=p["width"], range=(x["t"] * p["width"], (x["t"] + p["M"]) * p["width"]))
        elif p["spec"] == "edges":
            bins = np.asarray(x["e"])
        else:
            pairs = [[l, r] for l, r in zip(x["l"], x["r"])]
            bins = np.asarray(pairs) if p["spec"] == "pairs" else E.mod("physt.binnings").StaticBinning(pairs)
        if "w" in x:
            kw["weights"] = x["w"] if not p.get("wdtype") else np.asarray(x["w"], dtype=p["wdtype"])
        if p["dtype"]:
            kw["dtype"] = p["dtype"]
        if p.get("dropna") is False:
            kw["dropna"] = False
        h = E.attempt(h1, list(x["v"]), bins, keep_missed=p["keep_missed"], **kw)
        if isinstance(h, Raised):
            return {"raised": h}
        return snap1d(E, h, stats=True)

    def oracle(self, cx, p, x, obs):
        N, M = p["N"], p["M"]
        if p.get("layout") and not p["dropna"] and obs.get("raised") is not None:
            # without dropna a NaN must be refused - not applicable here (values are not NaN-able then)
            yield "no_exception", False
            return
        v = [cx.t(i) for i in x["v"]]
        nan = [cx.isnan(i) for i in x["v"]]
        w = [cx.t(i) for i in x["w"]] if "w" in x else [z3.IntVal(1)] * N
        if p["spec"] == "quantile":
            # the edges are whatever the method produced (C07 checks them); here: contents are the weights of the values inside them
            if obs.get("raised") is not None:
                yield "no_exception", False
                return
            B = obs["bins"]
            yield "two_bins", len(B) == 2
            if len(B) != 2:
                return
            L, R = [cx.t(b[0]) for b in B], [cx.t(b[1]) for b in B]
            for j in range(2):
                memb = [in_bin(v[i], L[j], R[j], j == 1) for i in range(N)]
                yield f"content[{j}]", cx.eq(obs["freq"][j], zsum(z3.If(memb[i], w[i], 0) for i in range(N)))
                yield f"err2[{j}]", cx.eq(obs["err2"][j], zsum(z3.If(memb[i], w[i] * w[i], 0) for i in range(N)))
            yield "all_weight_inside", cx.eq(obs["total"], zsum(w))
            return
        if p["spec"] in ("fwb", "fixed_range"):
            wd = z3.RealVal(str(p["width"]))
            e = [(z3.ToReal(cx.t(x["t"])) + j) * wd for j in range(M + 1)]
            L, R = e[:-1], e[1:]
        elif p["spec"] == "edges":
            e = [cx.t(i) for i in x["e"]]
            L, R = e[:-1], e[1:]
        else:
            L, R = [cx.t(i) for i in x["l"]], [cx.t(i) for i in x["r"]]
        cons = consecutive(L, R)
        int_dtype_float_w = p["dtype"] in ("int64", "int32", "int16", "uint16", "uint32", "uint64") and p["weights"] == "real"
        raised = obs.get("raised")
        if p.get("dropna") is False and not p.get("layout"):
            any_nan = z3.Or(nan + [z3.BoolVal(False)])
            if raised is not None:
                yield "refusal_only_for_nan", z3.And(any_nan, z3.BoolVal(raised.name == "ValueError"))
                return
            yield "nan_refused_without_dropna", z3.Not(any_nan)
        if int_dtype_float_w:
            yield "int_dtype_float_weights_refused", isinstance(raised, Raised) and raised.name == "ValueError"
            return
        yield "no_exception", raised is None
        if raised is not None:
            return

        def contrib(i, cond, sq=False):
            return z3.If(z3.And(z3.Not(nan[i]), cond), w[i] * w[i] if sq else w[i], 0)

        for j in range(M):
            memb = [in_bin(v[i], L[j], R[j], j == M - 1) for i in range(N)]
            yield f"content[{j}]", cx.eq(obs["freq"][j], zsum(contrib(i, memb[i]) for i in range(N)))
            yield f"err2[{j}]", cx.eq(obs["err2"][j], zsum(contrib(i, memb[i], True) for i in range(N)))
        total_w = zsum(contrib(i, z3.BoolVal(True)) for i in range(N))
        if p["keep_missed"]:
            under_ref = zsum(contrib(i, v[i] < L[0]) for i in range(N))
            over_ref = zsum(contrib(i, v[i] > R[-1]) for i in range(N))
            yield "underflow", z3.If(cons, cx.eq(obs["under"], under_ref), cx.is_nan_leaf(obs["under"]))
            yield "overflow", z3.If(cons, cx.eq(obs["over"], over_ref), cx.is_nan_leaf(obs["over"]))
            if cx.finite(obs["under"]) and cx.finite(obs["over"]):
                yield "accounting", z3.Implies(cons, cx.t(obs["total"]) + cx.t(obs["under"]) + cx.t(obs["over"]) == total_w)
        yield "dtype_consistent", obs["dtype"] == obs["fdtype"] == obs["edtype"]
        if p["weights"] != "real" and p["dtype"] is None and (N > 0 or p["weights"] == "none"):
            yield "integer_counting", obs["dtype"] == "int64"
