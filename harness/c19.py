"""C19 - the free-arithmetics switch is scoped, restored and isolated per context."""
from __future__ import annotations

import contextvars
import itertools

import z3

from symx.api import Harness, Raised, register

# task scripts: lists of steps; the task yields control after every step
SCRIPTS = {
    "A": [("enter", 0), ("read",), ("arith",), ("exit",), ("read",)],
    "B": [("set", 0), ("read",), ("enter", 1), ("read",), ("raise_exit",), ("read",)],
    "C": [("enter", 0), ("enter", 1), ("read",), ("exit",), ("read",), ("exit",), ("read",)],
    "D": [("read",), ("arith",), ("neg",), ("read",)],
    "E": [("enter", 0), ("set", 1), ("read",), ("exit",), ("read",), ("arith",)],
    # negative contents reached through histogram + histogram (a negative operand made legally earlier), in-place add, over-subtraction, setter
    "F": [("enter", 0), ("addneg",), ("exit",), ("addneg",), ("subover",)],
    "G": [("set", 0), ("iaddneg",), ("setneg",)],
    # short scripts for the three-task instance
    "H": [("enter", 0), ("read",), ("exit",)],
    "I": [("set", 0), ("read",)],
    "J": [("read",), ("arith",)],
    # array-like operands through every operator
    "K": [("divarr",), ("enter", 0), ("mularr",), ("idivarr",), ("exit",), ("subarr",)],
    "L": [("mul0d",), ("enter", 0), ("imul0d",), ("exit",), ("mul0d",)],
    "M": [("subzeros",), ("enter", 0), ("isubzeros",), ("exit",), ("addzeros",)],
    # plain lists on the left of + (reflected addition), also all-zero ones: array-like operands like any other (only the scalar 0 of sum() is special)
    # a negative factor applied in place (the refusal must leave no negative contents behind); a negative content of tiny magnitude
    "P": [("imulneg",), ("enter", 0), ("negtiny",), ("exit",), ("imulneg",)],
    "O": [("negfloat",), ("enter", 0), ("divneg",), ("exit",), ("setnegfloat",)],
    "N": [("raddzerolist",), ("enter", 0), ("raddlist",), ("exit",), ("raddzerolist",)],
}


class _Boom(Exception):
    pass


def _task(E, config, h_factory, script, vals, log):
    """Generator: one logical task (thread / asyncio task)."""
    np = E.np
    stack = []
    for step in script:
        op = step[0]
        if op == "enter":
            cm = config.enable_free_arithmetics(vals[step[1]])
            cm.__enter__()
            stack.append(cm)
            log.append(("enter", None))
        elif op == "exit":
            stack.pop().__exit__(None, None, None)
            log.append(("exit", None))
        elif op == "raise_exit":
            cm = stack.pop()
            try:
                try:
                    raise _Boom()
                except _Boom as e:
                    if not cm.__exit__(type(e), e, e.__traceback__):
                        raise
            except _Boom:
                pass
            log.append(("raise_exit", None))
        elif op == "set":
            config.free_arithmetics = vals[step[1]]
            log.append(("set", None))
        elif op == "read":
            log.append(("read", config.free_arithmetics))
        elif op == "arith":
            h = h_factory()
            r = E.attempt(lambda: h + np.asarray([1, 2]))
            log.append(("arith", "refused" if isinstance(r, Raised) else "accepted"))
        elif op in ("divarr", "mularr", "subarr", "idivarr", "mul0d", "imul0d", "subzeros", "addzeros", "isubzeros", "raddlist", "raddzerolist"):
            h = h_factory()
            arr = np.asarray([1, 2]) if op not in ("mul0d", "imul0d") else np.asarray(2)    # a 0-d array is an array-like operand, not a scalar
            if op in ("subzeros", "addzeros", "isubzeros", "raddlist", "raddzerolist"):
                arr = np.zeros(2)       # an all-zero array is still an array-like operand

            def run_arr():
                if op == "divarr":
                    return h / arr
                if op in ("mularr", "mul0d"):
                    return h * arr
                if op == "imul0d":
                    g0 = h
                    g0 *= arr
                    return g0
                if op in ("subarr", "subzeros"):
                    return h - arr
                if op == "addzeros":
                    return h + arr
                if op == "raddlist":
                    return [1, 2] + h
                if op == "raddzerolist":
                    return [0, 0] + h
                if op == "isubzeros":
                    gz = h
                    gz -= arr
                    return gz
                g = h
                g /= arr
                return g

            r = E.attempt(run_arr)
            log.append((op, "refused" if isinstance(r, Raised) else "accepted"))
        elif op == "neg":
            h = h_factory()
            r = E.attempt(lambda: h * (-1))
            log.append(("neg", "refused" if isinstance(r, Raised) else "accepted"))
        elif op == "imulneg":
            h = h_factory()

            def run_i():
                g = h
                g *= -2
                return g

            r = E.attempt(run_i)
            log.append((op, "refused" if isinstance(r, Raised) else "accepted", bool((h.frequencies >= 0).all())))
        elif op == "negtiny":
            h = h_factory()
            r = E.attempt(lambda: h * (-1e-20))
            log.append((op, "refused" if isinstance(r, Raised) else "accepted"))
        elif op in ("negfloat", "divneg", "setnegfloat"):
            # negative *float* contents: a fractional negative factor, a negative divisor, float values through the setter
            h = h_factory()

            def run_f():
                if op == "negfloat":
                    return h * (-0.5)
                if op == "divneg":
                    return h / (-2)
                h.frequencies = np.asarray([1.0, -2.5])
                return h

            r = E.attempt(run_f)
            log.append((op, "refused" if isinstance(r, Raised) else "accepted"))
        elif op in ("addneg", "iaddneg", "subover", "setneg"):
            h = h_factory()
            negative = h_factory.negative()

            def run():
                if op == "addneg":
                    return h + negative
                if op == "subover":
                    return h - h_factory.big()
                if op == "setneg":
                    h.frequencies = np.asarray([1, -2])
                    return h
                g = h
                g += negative
                return g

            r = E.attempt(run)
            # third entry: does the operand still hold only non-negative contents (it must after a refusal)
            log.append((op, "refused" if isinstance(r, Raised) else "accepted", bool((h.frequencies >= 0).all())))
        yield


def _reference(script, vals, inherited):
    """Stack discipline of one task alone: returns expected visible value (z3 term / bool) after each step."""
    cur = inherited
    saved = []
    out = []
    for step in script:
        op = step[0]
        if op == "enter":
            saved.append(cur)
            cur = vals[step[1]]
        elif op in ("exit", "raise_exit"):
            cur = saved.pop()
        elif op == "set":
            cur = vals[step[1]]
        out.append(cur)
    return out


@register
class C19Schedules(Harness):
    prop = "C19"
    group = "schedules"
    stubs = ("threads / asyncio tasks are generators stepped through the REAL contextvars.Context.run (copy_context() = task created from the main context, Context() = new thread); each config call is atomic",)
    bounds_doc = "2 tasks (quick) / 3 tasks with scripts of 4..7 steps from {enter(v), exit, exit-by-exception, assignment, read, array arithmetic, negative factor} incl. nesting; the values v, the main context's value and the environment default are symbolic / enumerated; the schedule (which task takes the next step) is a symbolic integer sequence forked over all interleavings"

    def instances(self, tier):
        pairs = [("A", "B"), ("C", "D"), ("E", "A"), ("B", "C"), ("F", "G"), ("K", "I"), ("L", "I"), ("M", "I"), ("N", "I"), ("O", "I"), ("P", "I")] if tier == "quick" else list(itertools.combinations_with_replacement("ABCDE", 2)) + [("F", "G"), ("F", "B"), ("G", "E"), ("F", "F"), ("K", "I"), ("K", "B"), ("L", "I"), ("L", "G"), ("M", "I"), ("N", "I"), ("N", "B"), ("O", "I"), ("O", "G"), ("P", "I"), ("P", "B")]
        for a, b in pairs:
            for kinds in (("copy", "copy"), ("copy", "fresh"), ("fresh", "fresh")):
                if tier == "quick" and kinds == ("fresh", "fresh") and (a, b) != ("A", "B"):
                    continue
                if tier == "quick" and (a, b) in (("F", "G"), ("K", "I"), ("L", "I"), ("M", "I"), ("N", "I"), ("O", "I"), ("P", "I")) and kinds != ("copy", "fresh"):
                    continue
                yield f"sched-{a}{b}-{kinds[0]}-{kinds[1]}", dict(scripts=[a, b], kinds=list(kinds), env="unset")
        if tier != "quick":
            yield "sched-HIJ-copy-fresh-copy", dict(scripts=["H", "I", "J"], kinds=["copy", "fresh", "copy"], env="unset")
            yield "sched-HHI-copy-copy-fresh", dict(scripts=["H", "H", "I"], kinds=["copy", "copy", "fresh"], env="unset")
        for env in ("0", "1", "true", ""):
            yield f"sched-DD-env{env or 'empty'}", dict(scripts=["D", "D"], kinds=["fresh", "copy"], env=env)
        # the environment default stays set while contexts are entered / values assigned: it never overrules them
        for env in ("1", "0"):
            yield f"sched-AI-env{env}", dict(scripts=["A", "I"], kinds=["fresh", "copy"], env=env)

    def declare(self, cx, p):
        T = len(p["scripts"])
        total = sum(len(SCRIPTS[s]) for s in p["scripts"])
        x = {"m": cx.bool("m"), "v": [[cx.bool(f"v{t}_{k}") for k in range(2)] for t in range(T)], "sched": [cx.pyint(f"s{k}", 0, T - 1) for k in range(total)],
             "set_main": cx.bool("set_main")}
        return x

    def drive(self, E, p, x):
        import os
        import sys

        # abandoned paths leave suspended task generators inside `with` blocks; their clean-up at garbage collection runs in
        # a foreign context and is reported through the unraisable hook - silence that noise (it is not part of any observation)
        sys.unraisablehook = lambda *a: None

        np = E.np
        cfgmod = E.mod("physt.config")
        H1 = E.mod("physt.histogram1d").Histogram1D
        hb = E.mod("physt.histogram_base")
        # a fresh configuration object built under the requested environment (the module's singleton is created at import time)
        old_env = os.environ.get("PHYST_FREE_ARITHMETICS")
        if p["env"] == "unset":
            os.environ.pop("PHYST_FREE_ARITHMETICS", None)
        else:
            os.environ["PHYST_FREE_ARITHMETICS"] = p["env"]
        old_instance, old_cfg = cfgmod._Config._instance, hb.config
        # (the variable keeps its value for the whole run, as a process environment does: it is the *default*, nothing that is set
        # or entered later may be overruled by it)
        try:
            cfgmod._Config._instance = None
            config = cfgmod._Config()
        except Exception:
            self._restore_env(old_env)
            raise
        hb.config = config
        try:
            def h_factory():
                return H1(np.asarray([0.0, 1.0, 2.0]), np.asarray([1, 1]))

            def _negative():
                # made legally: inside an enabled context of its own (left again before the tasks run)
                def make():
                    with config.enable_free_arithmetics(True):
                        return h_factory() * (-3)
                return contextvars.Context().run(make)

            h_factory.negative = _negative
            h_factory.big = lambda: H1(np.asarray([0.0, 1.0, 2.0]), np.asarray([5, 0]))

            main = contextvars.Context()
            logs = [[] for _ in p["scripts"]]
            gens, ctxs = [], []

            def setup():
                if E.cx.concrete_bool(x["set_main"]):
                    config.free_arithmetics = x["m"]
                for t, (s, kind) in enumerate(zip(p["scripts"], p["kinds"])):
                    ctxs.append(contextvars.copy_context() if kind == "copy" else contextvars.Context())
                    gens.append(_task(E, config, h_factory, SCRIPTS[s], x["v"][t], logs[t]))

            main.run(setup)
            remaining = [len(SCRIPTS[s]) for s in p["scripts"]]
            order = []
            for k in range(sum(remaining)):
                i = E.cx.concrete_int(x["sched"][k])
                if remaining[i] == 0:
                    E.prune()
                remaining[i] -= 1
                order.append(i)
                ctxs[i].run(next, gens[i])
            main_after = main.run(lambda: config.free_arithmetics)
            default_seen = contextvars.Context().run(lambda: config.free_arithmetics)
            return {"logs": [[list(e) for e in lg] for lg in logs], "order": order, "main_after": main_after, "default": default_seen,
                    "main_set": E.cx.concrete_bool(x["set_main"])}
        finally:
            hb.config = old_cfg
            cfgmod._Config._instance = old_instance
            self._restore_env(old_env)

    @staticmethod
    def _restore_env(old_env):
        import os

        if old_env is None:
            os.environ.pop("PHYST_FREE_ARITHMETICS", None)
        else:
            os.environ["PHYST_FREE_ARITHMETICS"] = old_env

    def oracle(self, cx, p, x, obs):
        yield "no_harness_exception", obs.get("raised") is None
        if obs.get("raised") is not None:
            return
        default = p["env"] == "1"
        yield "environment_default", obs["default"] is default or obs["default"] == default
        main_val = cx.b(x["m"]) if obs["main_set"] else z3.BoolVal(default)
        yield "main_context_unaffected", cx.b(obs["main_after"]) == main_val
        for t, (s, kind) in enumerate(zip(p["scripts"], p["kinds"])):
            inherited = main_val if kind == "copy" else z3.BoolVal(default)
            vals = [cx.b(v) for v in x["v"][t]]
            ref = _reference(SCRIPTS[s], vals, inherited)
            for k, (step, entry) in enumerate(zip(SCRIPTS[s], obs["logs"][t])):
                op, got = entry[0], entry[1]
                if len(entry) > 2 and got == "refused":
                    yield f"refused_operation_stores_nothing_negative[{t}][{k}]", entry[2] is True
                if op == "read":
                    yield f"read[{t}][{k}]", cx.b(got) == ref[k]
                elif op in ("arith", "divarr", "mularr", "subarr", "idivarr", "mul0d", "imul0d", "subzeros", "addzeros", "isubzeros", "raddlist", "raddzerolist"):
                    yield f"array_operand[{t}][{k}]", z3.BoolVal(got == "accepted") == ref[k]
                elif op in ("neg", "addneg", "iaddneg", "subover", "setneg", "negfloat", "divneg", "setnegfloat", "imulneg", "negtiny"):
                    yield f"negative_content[{t}][{k}]", z3.BoolVal(got == "accepted") == ref[k]
