"""C20 - plots show exactly the histogram's data and never modify it (call-argument level)."""
from __future__ import annotations

import z3

from symx.api import Harness, Raised, register

from .c12 import flat, full, same_snapshot
from .common import declare_cells, declare_edges, getcell, nested, product_indices, zsum


class RecFigure:
    def __init__(self):
        self.calls = []

    def tight_layout(self, *a, **k):
        self.calls.append(("tight_layout",))

    def colorbar(self, *a, **k):
        self.calls.append(("colorbar",))

    def savefig(self, *a, **k):
        self.calls.append(("savefig",))


class RecAxes:
    """Recording stand-in for matplotlib's Axes, used in BOTH worlds (passed as ax=...)."""

    def __init__(self):
        self.calls = []
        self.figure = RecFigure()
        self._xlim, self._ylim = (0.0, 1.0), (0.0, 1.0)

    def get_figure(self):
        return self.figure

    def get_xlim(self):
        return self._xlim

    def get_ylim(self):
        return self._ylim

    def set_xlim(self, *a, **k):
        self.calls.append(("set_xlim", a, k))
        if len(a) == 1 and isinstance(a[0], (tuple, list)) and len(a[0]) == 2:
            self._xlim = (a[0][0], a[0][1])
        elif len(a) == 2:
            self._xlim = (a[0], a[1])

    def set_ylim(self, *a, **k):
        self.calls.append(("set_ylim", a, k))

    def __getattr__(self, name):
        if name.startswith("__"):
            raise AttributeError(name)

        def rec(*a, **k):
            self.calls.append((name, a, k))
            return None

        return rec

    def named(self, name):
        return [c for c in self.calls if c[0] == name]


def _tl(a):
    if hasattr(a, "tolist"):
        return a.tolist()
    if isinstance(a, (list, tuple)):
        return [_tl(i) for i in a]
    return a


def _mk1d(E, x, M, name="the name", title="the title", axis="the axis"):
    np = E.np
    H1 = E.mod("physt.histogram1d").Histogram1D
    return H1(np.asarray(x["e"]), np.asarray(x["f"], dtype=float), np.asarray(x["q"], dtype=float), name=name, title=title, axis_name=axis)


@register
class C20Matplotlib1D(Harness):
    prop = "C20"
    group = "mpl1d"
    stubs = ("matplotlib Axes replaced by a call recorder (in both worlds): ax.bar(x, h, w, align='edge') draws [x, x+w] x [0, h], ax.scatter/plot/errorbar/fill_between/step draw at the given coordinates",
             "matplotlib package (symbolic world only): Normalize = clip((x - lo)/(hi - lo)), colormap = grey level (strictly monotone), passive Rectangle / Path / ScalarMappable")
    bounds_doc = "matplotlib 1D kinds bar / scatter / line / fill / step on a 1D histogram with M=2 irregular bins, symbolic contents and errors2 x density x cumulative x errors x show_values x title/label overrides x ticks"

    def instances(self, tier):
        for kind in ("bar", "scatter", "line", "fill", "step"):
            for density, cumulative in ((False, False), (True, False), (False, True), (True, True)):
                for errors in (False, True):
                    if errors and (cumulative or kind in ("fill", "step")):
                        continue
                    if tier == "quick" and density and cumulative and kind not in ("bar", "line"):
                        continue
                    yield f"mpl-{kind}-d{int(density)}-c{int(cumulative)}-e{int(errors)}", dict(kind=kind, density=density, cumulative=cumulative, errors=errors, override=False, values=False, ticks=None)
            yield f"mpl-{kind}-override", dict(kind=kind, density=False, cumulative=False, errors=False, override=True, values=(kind in ("bar", "scatter", "line", "step")), ticks="center" if kind != "fill" else "edge")
        yield "mpl-bar-errors-cumulative", dict(kind="bar", density=False, cumulative=True, errors=True, override=False, values=False, ticks=None)
        for kind in ("bar", "line", "step"):
            yield f"mpl-{kind}-d1-c0-values", dict(kind=kind, density=True, cumulative=False, errors=False, override=False, values=True, ticks=None)
            yield f"mpl-{kind}-d0-c1-values", dict(kind=kind, density=False, cumulative=True, errors=False, override=False, values=True, ticks=None)
        for kind in ("bar", "line"):
            yield f"mpl-{kind}-tick-handler-xlim", dict(kind=kind, density=False, cumulative=False, errors=False, override=False, values=False, ticks=None, handler=True)
        yield "mpl-bar-2d", dict(kind="bar", wrongdim=True, density=False, cumulative=False, errors=False, override=False, values=False, ticks=None)
        # the same drawing reached through the public entry points: plot(h, kind), h.plot(kind), h.plot.<kind>()
        for kind in ("scatter", "line"):
            for route in ("plot", "proxy_call", "proxy_attr"):
                yield f"mpl-{kind}-d0-c0-via-{route}", dict(kind=kind, density=False, cumulative=False, errors=False, override=False, values=False, ticks=None, route=route)

    def declare(self, cx, p):
        x = {"f": declare_cells(cx, "f", [2]), "q": declare_cells(cx, "q", [2]), "e": declare_edges(cx, "e", 2)}
        if cx.sym:
            cx.assume(zsum(cx.t(i) for i in x["f"]) > 0)
        return x

    def drive(self, E, p, x):
        np = E.np
        mpl = E.mod("physt.plotting.matplotlib")
        if p.get("wrongdim"):
            H2 = E.mod("physt.histogram_nd").Histogram2D
            h = H2([np.asarray(x["e"]), np.asarray(x["e"])], np.asarray([[1.0, 2.0], [3.0, 4.0]]))
        else:
            h = _mk1d(E, x, 2)
        before = full(E, h)
        ax = RecAxes()
        kw = dict(ax=ax, density=p["density"], cumulative=p["cumulative"])
        if p["kind"] not in ("fill", "step"):
            kw["errors"] = p["errors"]
        if p["override"]:
            kw.update(title="T2", xlabel="X2", ylabel="Y2")
        if p["values"]:
            kw["show_values"] = True
        if p["ticks"]:
            kw["ticks"] = p["ticks"]
        seen_by_handler = []
        if p.get("handler"):
            # a tick handler receives the histogram and the axis range actually shown (here an explicit xlim wider than the bins)
            def handler(hh, lo, hi):
                seen_by_handler.append([lo, hi])
                return [lo, hi], ["lo", "hi"]

            kw["tick_handler"] = handler
            kw["xlim"] = (x["e"][0] - 1.0, x["e"][2] + 2.0)
        route = p.get("route")
        if route == "plot":
            r = E.attempt(E.mod("physt.plotting").plot, h, p["kind"], backend="matplotlib", **kw)
        elif route == "proxy_call":
            r = E.attempt(lambda: h.plot(p["kind"], backend="matplotlib", **kw))
        elif route == "proxy_attr":
            r = E.attempt(lambda: getattr(h.plot, p["kind"])(backend="matplotlib", **kw))
        else:
            r = E.attempt(getattr(mpl, p["kind"]), h, **kw)
        obs = {"after": full(E, h), "before": before, "handler_calls": [[_tl(v) for v in c] for c in seen_by_handler]}
        if isinstance(r, Raised):
            obs["op"] = {"raised": r}
            return obs
        obs["op"] = "ok"
        calls = {}
        for name in ("bar", "scatter", "plot", "errorbar", "fill_between", "step", "set_title", "set_xlabel", "set_ylabel", "text", "set_xticks"):
            calls[name] = [{"args": [_tl(a) for a in (c[1][:2] if name == "text" else c[1])], "kw": {k: _tl(v) for k, v in c[2].items() if k in ("yerr", "align", "label", "width")}} for c in ax.named(name)]
        obs["calls"] = calls
        return obs

    def oracle(self, cx, p, x, obs):
        yield "no_harness_exception", obs.get("raised") is None
        if obs.get("raised") is not None:
            return
        yield "histogram_unchanged", same_snapshot(cx, obs["before"], obs["after"])
        if p.get("wrongdim"):
            yield "wrong_dimension_refused", obs["op"] != "ok" and obs["op"]["raised"].name == "TypeError"
            return
        if p["errors"] and p["cumulative"]:
            yield "errors_with_cumulative_refused", obs["op"] != "ok"
            return
        yield "no_exception", obs["op"] == "ok"
        if obs["op"] != "ok":
            return
        f, q = [cx.t(i) for i in x["f"]], [cx.t(i) for i in x["q"]]
        e = [cx.t(i) for i in x["e"]]
        wdt = [e[1] - e[0], e[2] - e[1]]
        ctr = [(e[0] + e[1]) / 2, (e[1] + e[2]) / 2]
        T = f[0] + f[1]
        if p["density"] and p["cumulative"]:
            ref = [f[0] / T, (f[0] + f[1]) / T]
        elif p["density"]:
            ref = [f[0] / wdt[0], f[1] / wdt[1]]
        elif p["cumulative"]:
            ref = [f[0], f[0] + f[1]]
        else:
            ref = f
        c = obs["calls"]
        kind = p["kind"]

        def eq_list(got, want):
            got = list(got) if isinstance(got, (list, tuple)) else None
            if got is None or len(got) != len(want):
                return z3.BoolVal(False)
            return z3.And([cx.eq(g, w) for g, w in zip(got, want)])

        if kind == "bar":
            yield "one_bar_call", len(c["bar"]) == 1
            if len(c["bar"]) != 1:
                return
            a = c["bar"][0]
            yield "bar_left_edges", eq_list(a["args"][0], e[:2])
            yield "bar_heights", eq_list(a["args"][1], ref)
            yield "bar_widths", eq_list(a["args"][2], wdt)
            yield "bar_aligned_at_edge", a["kw"].get("align") == "edge"
            yerr = a["kw"].get("yerr")
        elif kind == "scatter":
            yield "one_scatter_call", len(c["scatter"]) == 1
            if len(c["scatter"]) != 1:
                return
            a = c["scatter"][0]
            yield "marks_at_centres", eq_list(a["args"][0], ctr)
            yield "mark_heights", eq_list(a["args"][1], ref)
            yerr = c["errorbar"][0]["kw"].get("yerr") if c["errorbar"] else None
            if p["errors"]:
                yield "errorbar_positions", len(c["errorbar"]) == 1 and eq_list(c["errorbar"][0]["args"][0], ctr) is not None
                if c["errorbar"]:
                    yield "errorbar_at_marks", z3.And(eq_list(c["errorbar"][0]["args"][0], ctr), eq_list(c["errorbar"][0]["args"][1], ref))
        elif kind == "line":
            calls = c["errorbar"] if p["errors"] else c["plot"]
            yield "one_line_call", len(calls) == 1
            if len(calls) != 1:
                return
            a = calls[0]
            yield "marks_at_centres", eq_list(a["args"][0], ctr)
            yield "mark_heights", eq_list(a["args"][1], ref)
            yerr = a["kw"].get("yerr")
        elif kind == "fill":
            yield "one_fill_call", len(c["fill_between"]) == 1
            if len(c["fill_between"]) != 1:
                return
            a = c["fill_between"][0]
            yield "marks_at_centres", eq_list(a["args"][0], ctr)
            yield "fill_from_zero", cx.eq(a["args"][1], 0)
            yield "mark_heights", eq_list(a["args"][2], ref)
            yerr = None
        else:
            yield "one_step_call", len(c["step"]) == 1
            if len(c["step"]) != 1:
                return
            a = c["step"][0]
            yield "steps_at_edges", eq_list(a["args"][0], e)
            yield "step_heights", eq_list(a["args"][1], [ref[0]] + ref)
            yerr = None
        if p["errors"]:
            ok = isinstance(yerr, list) and len(yerr) == 2
            yield "error_bars_present", ok
            if ok:
                for j in range(2):
                    want2 = q[j] / (wdt[j] * wdt[j]) if p["density"] else q[j]
                    yield f"error_bar[{j}]", z3.And(cx.t(yerr[j]) >= 0, cx.t(yerr[j]) * cx.t(yerr[j]) == want2) if cx.finite(yerr[j]) else False
        title = [t["args"][0] for t in c["set_title"]]
        xl = [t["args"][0] for t in c["set_xlabel"]]
        yl = [t["args"][0] for t in c["set_ylabel"]]
        if p["override"]:
            yield "labels_overridden", title == ["T2"] and xl == ["X2"] and yl == ["Y2"]
        else:
            yield "labels_from_metadata", title == ["the title"] and xl == ["the axis"] and yl == []
        if p["values"]:
            yield "one_value_label_per_bin", len(c["text"]) == 2 and z3.And([z3.And(cx.eq(t["args"][0], ctr[j]), cx.eq(t["args"][1], ref[j])) for j, t in enumerate(c["text"])]) is not None
            if len(c["text"]) == 2:
                yield "value_labels_positions", z3.And([z3.And(cx.eq(t["args"][0], ctr[j]), cx.eq(t["args"][1], ref[j])) for j, t in enumerate(c["text"])])
        if p.get("handler"):
            hc = obs["handler_calls"]
            yield "tick_handler_called_once_with_the_axis_range", len(hc) == 1 and z3.And(cx.eq(hc[0][0], e[0] - 1), cx.eq(hc[0][1], e[2] + 2)) is not None
            if len(hc) == 1:
                yield "tick_handler_range", z3.And(cx.eq(hc[0][0], e[0] - 1), cx.eq(hc[0][1], e[2] + 2))
        if p["ticks"]:
            want = ctr if p["ticks"] == "center" else e[:2]
            yield "ticks_on_request", len(c["set_xticks"]) == 1 and True
            if len(c["set_xticks"]) == 1:
                yield "tick_positions", eq_list(c["set_xticks"][0]["args"][0], want)


@register
class C20Matplotlib2D(Harness):
    prop = "C20"
    group = "mpl2d"
    stubs = C20Matplotlib1D.stubs
    bounds_doc = "matplotlib map / image / polar_map on a 2x2 histogram with irregular (map) or regular (image) symbolic bins and symbolic contents x density x show_zero: one rectangle / polar bar per bin at the bin's position, image cells at the transposed, flipped position with the right extent, colour = cmap(norm(value)) with the stub's monotone grey map (symbolic world)"

    def instances(self, tier):
        for kind in ("map", "image", "polar_map"):
            for density in (False, True):
                for show_zero in ((True, False) if kind != "image" else (True,)):
                    if tier == "quick" and density and (not show_zero or kind == "polar_map"):
                        # nonlinear zero tests on densities, and densities over polar bins (areas are products of differences of squares):
                        # minutes of solver time with a large spread between runs - kept for the thorough tier
                        continue
                    yield f"mpl2-{kind}-d{int(density)}-z{int(show_zero)}", dict(kind=kind, density=density, show_zero=show_zero)
        yield "mpl2-map-1d", dict(kind="map", wrongdim=True, density=False, show_zero=True)
        yield "mpl2-image-irregular", dict(kind="image", irregular=True, density=False, show_zero=True)

    def declare(self, cx, p):
        x = {"f": declare_cells(cx, "f", [2, 2])}
        if p["kind"] == "image" and not p.get("irregular"):
            x["o"] = [cx.real("ox"), cx.real("oy")]
            x["w"] = [cx.real("wx"), cx.real("wy")]
            if cx.sym:
                cx.assume(x["w"][0] > 0.125, x["w"][1] > 0.125, x["w"][0] < 50, x["w"][1] < 50, x["o"][0] >= -50, x["o"][0] <= 50, x["o"][1] >= -50, x["o"][1] <= 50)
            x["e"] = [[x["o"][k], x["o"][k] + x["w"][k], x["o"][k] + x["w"][k] * 2] for k in range(2)]
        else:
            x["e"] = [declare_edges(cx, f"e{k}_", 2) for k in range(2)]
            if cx.sym and p["kind"] == "polar_map":
                cx.assume(x["e"][0][0] >= 0, x["e"][1][0] >= 0, x["e"][1][2] <= 6.25)
            if cx.sym and p.get("irregular"):
                e = [cx.t(t) for t in x["e"][0]]
                cx.assume(z3.Or(e[2] - e[1] > (e[1] - e[0]) * 2, (e[2] - e[1]) * 2 < e[1] - e[0]), e[0] >= -50, e[2] <= 50, e[1] - e[0] > z3.Q(1, 8), e[2] - e[1] > z3.Q(1, 8))
        if cx.sym:
            cx.assume(z3.Or([cx.t(v) > 0 for v in x["f"]]))
        return x

    def drive(self, E, p, x):
        np = E.np
        mpl = E.mod("physt.plotting.matplotlib")
        if p.get("wrongdim"):
            H1 = E.mod("physt.histogram1d").Histogram1D
            h = H1(np.asarray(x["e"][0]), np.asarray([1.0, 2.0]))
        else:
            H2 = E.mod("physt.histogram_nd").Histogram2D
            h = H2([np.asarray(x["e"][0]), np.asarray(x["e"][1])], np.asarray(nested(x["f"], [2, 2]), dtype=float), name="n", axis_names=["ax", "ay"])
        before = full(E, h)
        ax = RecAxes()
        kw = dict(ax=ax, density=p["density"])
        if p["kind"] != "image":
            kw["show_zero"] = p["show_zero"]
        r = E.attempt(getattr(mpl, p["kind"]), h, **kw)
        obs = {"before": before, "after": full(E, h)}
        if isinstance(r, Raised):
            obs["op"] = {"raised": r}
            return obs
        obs["op"] = "ok"
        rects = []
        for c in ax.named("add_patch"):
            rc = c[1][0]
            xy = rc.get_xy()
            item = {"xy": [xy[0], xy[1]], "w": rc.get_width(), "h": rc.get_height()}
            fc = rc.get_facecolor()
            item["_grey" if E.sym else "_rgba"] = _tl(fc)[0] if E.sym else None
            rects.append(item)
        obs["rects"] = rects
        obs["bars"] = [{"args": [_tl(a) for a in c[1]], "kw": {k: _tl(v) for k, v in c[2].items() if k in ("width", "bottom", "align")}, "_grey": (_tl(c[2].get("color"))[0] if E.sym else None)} for c in ax.named("bar")]
        ims = ax.named("imshow")
        obs["imshow"] = [{"data": _tl(c[1][0]), "extent": _tl(c[2].get("extent")), "aspect": c[2].get("aspect")} for c in ims]
        obs["labels"] = [[t[1][0] for t in ax.named(n)] for n in ("set_title", "set_xlabel", "set_ylabel")]
        return obs

    def oracle(self, cx, p, x, obs):
        yield "no_harness_exception", obs.get("raised") is None
        if obs.get("raised") is not None:
            return
        yield "histogram_unchanged", same_snapshot(cx, obs["before"], obs["after"])
        if p.get("wrongdim"):
            yield "wrong_dimension_refused", obs["op"] != "ok" and obs["op"]["raised"].name == "TypeError"
            return
        if p.get("irregular"):
            yield "irregular_image_refused", obs["op"] != "ok" and obs["op"]["raised"].name == "ValueError"
            return
        yield "no_exception", obs["op"] == "ok"
        if obs["op"] != "ok":
            return
        idxs = product_indices([2, 2])
        f = {i: cx.t(v) for i, v in zip(idxs, x["f"])}
        e = [[cx.t(t) for t in ax_] for ax_ in x["e"]]
        size = {i: (e[0][i[0] + 1] - e[0][i[0]]) * (e[1][i[1] + 1] - e[1][i[1]]) for i in idxs}
        val = {i: (f[i] / size[i] if p["density"] else f[i]) for i in idxs}
        vmax = None
        for i in idxs:
            vmax = val[i] if vmax is None else z3.If(val[i] > vmax, val[i], vmax)
        yield "labels_from_metadata", obs["labels"] == [["n"], ["ax"], ["ay"]]
        if p["kind"] == "polar_map" and cx.sym:
            cx.assume(*[z3.And(cx.t(t) >= 0, cx.t(t) <= 50) for ax_ in x["e"] for t in ax_]) if False else None
        if p["kind"] == "image":
            yield "one_image", len(obs["imshow"]) == 1
            if len(obs["imshow"]) != 1:
                return
            im = obs["imshow"][0]
            # imshow draws row 0 at the top: data.T flipped vertically, extent = (x0, x1, y0, y1)
            yield "image_cells", z3.And([cx.eq(im["data"][1 - j][i], val[(i, j)]) for (i, j) in idxs]) if len(im["data"]) == 2 else False
            yield "image_extent", z3.And(cx.eq(im["extent"][0], e[0][0]), cx.eq(im["extent"][1], e[0][2]), cx.eq(im["extent"][2], e[1][0]), cx.eq(im["extent"][3], e[1][2]))
            return
        drawn = obs["rects"] if p["kind"] == "map" else obs["bars"]
        shown = [i for i in idxs]
        if p["show_zero"]:
            yield "one_mark_per_bin", len(drawn) == 4
            expect = idxs
        else:
            # bins with value 0 are skipped: the number drawn equals the number of non-zero bins
            nz = [cx.concrete_bool(cx_bool(cx, val[i] != 0)) for i in idxs]
            expect = [i for i, b in zip(idxs, nz) if b]
            yield "zero_bins_skipped", len(drawn) == len(expect)
        if len(drawn) != len(expect):
            return
        for d, i in zip(drawn, expect):
            tag = ",".join(map(str, i))
            if p["kind"] == "map":
                yield f"rectangle[{tag}]", z3.And(cx.eq(d["xy"][0], e[0][i[0]]), cx.eq(d["xy"][1], e[1][i[1]]), cx.eq(d["w"], e[0][i[0] + 1] - e[0][i[0]]), cx.eq(d["h"], e[1][i[1] + 1] - e[1][i[1]]))
            else:
                # polar bar: angle = phi left edge, height = delta r, width = delta phi, bottom = r left edge
                yield f"polar_bar[{tag}]", z3.And(cx.eq(d["args"][0], e[1][i[1]]), cx.eq(d["args"][1], e[0][i[0] + 1] - e[0][i[0]]), cx.eq(d["kw"]["width"], e[1][i[1] + 1] - e[1][i[1]]),
                                                   cx.eq(d["kw"]["bottom"], e[0][i[0]]), z3.BoolVal(d["kw"].get("align") == "edge"))
            g = d.get("_grey")
            if g is not None and cx.finite(g) and not p["density"]:
                # colour = cmap(norm(value)), norm = clip(value / max): monotone in the value
                ratio = val[i] / vmax
                yield f"colour[{tag}]", cx.t(g) == z3.If(ratio < 0, 0, z3.If(ratio > 1, 1, ratio))


def cx_bool(cx, term):
    from symx import scalars as S

    return S._mk(S.bool_, term) if cx.sym else term


@register
class C20Common(Harness):
    prop = "C20"
    group = "common"
    stubs = ("print() of physt.plotting.ascii replaced by a line recorder", "plotly.graph_objs replaced by passive trace / layout / figure recorders (symbolic world)")
    bounds_doc = "ASCII hbar (width 8, M=2), plotly bar / line / scatter / map (traces hold the arrays given), plot() dispatch: unknown backend / kind refused, wrong dimension refused; TimeTickHandler.get_time_ticks for symbolic min, max with <= 6 ticks and for edge / center levels"

    def instances(self, tier):
        yield "ascii-hbar", dict(kind="ascii")
        yield "ascii-hbar-values", dict(kind="ascii", values=True)
        for k in ("bar", "line", "scatter"):
            for density in (False, True):
                yield f"plotly-{k}-d{int(density)}", dict(kind="plotly", plot=k, density=density)
                yield f"plotly-{k}-d{int(density)}-cumulative", dict(kind="plotly", plot=k, density=density, cumulative=True)
        yield "plotly-map", dict(kind="plotly", plot="map", density=False)
        yield "plotly-bar-2d", dict(kind="plotly", plot="bar", density=False, wrongdim=True)
        for bad in ("backend", "kind", "kind_dim", "kind_helper_mpl", "kind_helper_ascii"):
            yield f"dispatch-bad-{bad}", dict(kind="dispatch", bad=bad)
        for unit in ("sec", "min"):
            yield f"ticks-{unit}", dict(kind="ticks", unit=unit)
        # levels given as strings ("2min", "m", "3s", "4mins") are parsed to the same (unit, multiple) pairs
        for text, unit, kc in (("2min", "min", 2), ("m", "min", 1), ("4mins", "min", 4), ("3s", "sec", 3), ("sec", "sec", 1)):
            yield f"ticks-str-{text}", dict(kind="ticks", unit=unit, levelstr=text, kconst=kc)
        yield "ticks-edge", dict(kind="ticks", unit="edge")
        yield "ticks-center", dict(kind="ticks", unit="center")

    def declare(self, cx, p):
        x = {"f": declare_cells(cx, "f", [2], "int"), "q": declare_cells(cx, "q", [2], "int"), "e": declare_edges(cx, "e", 2)}
        if cx.sym:
            cx.assume(zsum(cx.t(i) for i in x["f"]) > 0)
        if cx.sym and p["kind"] == "ascii":
            # bar lengths are round(8 f / total): a nonlinear integer query per feasible length - contents up to 9 keep it decidable in seconds
            cx.assume(*[cx.t(i) <= 9 for i in x["f"]])
        if p["kind"] == "ticks":
            x["lo"], x["hi"], x["k"] = cx.pyfloat("lo"), cx.pyfloat("hi"), cx.pyint("k", 1, 4)
            if cx.sym:
                unit = {"sec": 1, "min": 60}.get(p["unit"], 1)
                cx.assume(x["lo"] < x["hi"], x["lo"] >= -5 * unit, x["lo"] <= 5 * unit, cx.t(x["hi"]) - cx.t(x["lo"]) <= 5 * unit * cx.t(x["k"]))
                if p.get("kconst"):
                    cx.assume(cx.t(x["k"]) == p["kconst"])
        return x

    def drive(self, E, p, x):
        np = E.np
        h = _mk1d(E, x, 2)
        before = full(E, h)
        k = p["kind"]
        obs = {"before": before}
        if k == "ascii":
            asc = E.mod("physt.plotting.ascii")
            lines = []
            old = asc.__dict__.get("print")
            asc.__dict__["print"] = lambda *a, **kw: lines.append(a)
            try:
                r = E.attempt(asc.hbar, h, width=8, show_values=True) if p.get("values") else E.attempt(asc.hbar, h, width=8)
            finally:
                if old is None:
                    asc.__dict__.pop("print", None)
                else:
                    asc.__dict__["print"] = old
            obs["op"] = {"raised": r} if isinstance(r, Raised) else "ok"
            obs["lines"] = [len(a[0]) if a and isinstance(a[0], str) and set(a[0]) <= {"#"} else -1 for a in lines]
            obs["printed_values"] = [a[1] if len(a) > 1 else None for a in lines]
        elif k == "plotly":
            pl = E.mod("physt.plotting.plotly")
            if p.get("wrongdim") or p["plot"] == "map":
                H2 = E.mod("physt.histogram_nd").Histogram2D
                h2 = H2([np.asarray(x["e"]), np.asarray(x["e"])], np.asarray([[x["f"][0], x["f"][1]], [x["q"][0], x["q"][1]]], dtype=float))
                target = h2
            else:
                target = h
            kw = {} if p["plot"] == "map" else {"density": p["density"]}
            if p.get("cumulative"):
                kw["cumulative"] = True
            r = E.attempt(getattr(pl, p["plot"]), target, **kw)
            if isinstance(r, Raised):
                obs["op"] = {"raised": r}
            else:
                obs["op"] = "ok"
                tr = r.data[0]

                def attr(name):
                    d = getattr(tr, "kwargs", None)
                    return d.get(name) if isinstance(d, dict) else getattr(tr, name, None)

                obs["trace"] = {"type": type(tr).__name__, "x": _tl(attr("x")), "y": _tl(attr("y")), "z": _tl(attr("z")),
                                "width": _tl(attr("width")) if p["plot"] == "bar" else None, "mode": attr("mode") if p["plot"] != "bar" else None,
                                "n_traces": len(r.data)}
        elif k == "dispatch":
            P = E.mod("physt.plotting")
            if p["bad"] == "backend":
                r = E.attempt(P.plot, h, "bar", backend="no_such_backend", ax=RecAxes())   # (an axes object, so that a wrongly chosen backend could draw in both worlds)
            elif p["bad"] == "kind":
                r = E.attempt(P.plot, h, "no_such_kind", backend="matplotlib", ax=RecAxes())
            elif p["bad"] == "kind_helper_mpl":
                r = E.attempt(P.plot, h, "get_data", backend="matplotlib")     # a name in the backend module that is not a plot type
            elif p["bad"] == "kind_helper_ascii":
                r = E.attempt(P.plot, h, "suppress", backend="ascii")
            else:
                r = E.attempt(P.plot, h, "map", backend="matplotlib", ax=RecAxes())
            obs["op"] = {"raised": r} if isinstance(r, Raised) else "ok"
        else:
            common = E.mod("physt.plotting.common")
            th = common.TimeTickHandler()
            unit = p["unit"]
            level = (unit, 0) if unit in ("edge", "center") else (unit, x["k"])
            if p.get("levelstr"):
                level = E.attempt(th.parse_level, p["levelstr"])
                if isinstance(level, Raised):
                    obs["op"] = {"raised": level}
                    obs["after"] = full(E, h)
                    return obs
                obs["parsed_level"] = [level[0], level[1]]
            r = E.attempt(th.get_time_ticks, h, level, x["lo"], x["hi"])
            obs["op"] = {"raised": r} if isinstance(r, Raised) else "ok"
            if not isinstance(r, Raised):
                obs["ticks"] = _tl(list(r))
                lab = E.attempt(th.format_time_ticks, list(r), level) if unit not in ("edge", "center") else None
                obs["n_labels"] = len(lab) if isinstance(lab, list) else None
        obs["after"] = full(E, h)
        return obs

    def oracle(self, cx, p, x, obs):
        yield "no_harness_exception", obs.get("raised") is None
        if obs.get("raised") is not None:
            return
        yield "histogram_unchanged", same_snapshot(cx, obs["before"], obs["after"])
        k = p["kind"]
        f = [cx.t(i) for i in x["f"]]
        e = [cx.t(i) for i in x["e"]]
        if k == "dispatch":
            yield "refused", obs["op"] != "ok" and obs["op"]["raised"].name in ("RuntimeError", "TypeError", "ValueError", "NotImplementedError")
            return
        if k == "plotly" and p.get("wrongdim"):
            yield "wrong_dimension_refused", obs["op"] != "ok" and obs["op"]["raised"].name == "TypeError"
            return
        yield "no_exception", obs["op"] == "ok"
        if obs["op"] != "ok":
            return
        if k == "ascii":
            T = f[0] + f[1]
            yield "one_line_per_bin", len(obs["lines"]) == 2 and all(n >= 0 for n in obs["lines"])
            if len(obs["lines"]) == 2:
                for j in range(2):
                    n = obs["lines"][j]
                    # n = round(8 f_j / T) (half to even): |8 f_j / T - n| <= 1/2
                    yield f"hashes[{j}]", z3.And(2 * (8 * f[j] - n * T) <= T, 2 * (n * T - 8 * f[j]) <= T)
                if p.get("values"):
                    yield "printed_values_are_frequencies", z3.And([cx.eq(obs["printed_values"][j], f[j]) for j in range(2)])
                else:
                    yield "no_values_printed", obs["printed_values"] == [None, None]
            return
        if k == "plotly":
            tr = obs["trace"]
            if p["plot"] == "map":
                q = [cx.t(i) for i in x["q"]]
                yield "heatmap_values", tr["type"] == "Heatmap" and z3.And(cx.eq(tr["z"][0][0], f[0]), cx.eq(tr["z"][0][1], f[1]), cx.eq(tr["z"][1][0], q[0]), cx.eq(tr["z"][1][1], q[1])) is not None
                yield "heatmap_cells", z3.And(cx.eq(tr["z"][0][0], f[0]), cx.eq(tr["z"][0][1], f[1]), cx.eq(tr["z"][1][0], q[0]), cx.eq(tr["z"][1][1], q[1]))
                return
            wdt = [e[1] - e[0], e[2] - e[1]]
            ref = [z3.ToReal(f[j]) / wdt[j] for j in range(2)] if p["density"] else f
            if p.get("cumulative"):
                T = z3.ToReal(f[0] + f[1])
                ref = [z3.ToReal(f[0]) / T, z3.RealVal(1)] if p["density"] else [f[0], f[0] + f[1]]
            yield "one_trace", tr["n_traces"] == 1 and tr["type"] == ("Bar" if p["plot"] == "bar" else "Scatter")
            yield "trace_x_centres", z3.And([cx.eq(tr["x"][j], (e[j] + e[j + 1]) / 2) for j in range(2)])
            yield "trace_y_values", z3.And([cx.eq(tr["y"][j], ref[j]) for j in range(2)])
            if p["plot"] == "bar":
                yield "bar_widths", z3.And([cx.eq(tr["width"][j], wdt[j]) for j in range(2)])
            else:
                yield "mode", tr["mode"] == ("lines" if p["plot"] == "line" else "markers")
            return
        ticks = obs["ticks"]
        if p["unit"] == "edge":
            yield "ticks_at_edges", len(ticks) == 3 and z3.And([cx.eq(t, e[j]) for j, t in enumerate(ticks)]) is not None
            if len(ticks) == 3:
                yield "tick_values", z3.And([cx.eq(t, e[j]) for j, t in enumerate(ticks)])
            return
        if p["unit"] == "center":
            yield "ticks_at_centres", len(ticks) == 2
            if len(ticks) == 2:
                yield "tick_values", z3.And([cx.eq(t, (e[j] + e[j + 1]) / 2) for j, t in enumerate(ticks)])
            return
        if p.get("levelstr"):
            yield "level_string_parsed", obs["parsed_level"][0] == p["unit"] and obs["parsed_level"][1] == p["kconst"]
        unit = {"sec": 1, "min": 60}[p["unit"]]
        step = z3.ToReal(cx.t(x["k"]) * unit)
        lo, hi = cx.t(x["lo"]), cx.t(x["hi"])
        yield "one_label_per_tick", obs["n_labels"] == len(ticks)
        for j, t in enumerate(ticks):
            tt = cx.t(t)
            tt = z3.ToReal(tt) if tt.sort() == z3.IntSort() else tt
            yield f"tick_is_multiple[{j}]", z3.And(z3.ToReal(z3.ToInt(tt / step)) * step == tt, tt >= lo, tt <= hi)
            if j:
                prev = cx.t(ticks[j - 1])
                yield f"tick_spacing[{j}]", tt - (z3.ToReal(prev) if prev.sort() == z3.IntSort() else prev) == step
        if ticks:
            first, last = cx.t(ticks[0]), cx.t(ticks[-1])
            first = z3.ToReal(first) if first.sort() == z3.IntSort() else first
            last = z3.ToReal(last) if last.sort() == z3.IntSort() else last
            yield "no_tick_missing", z3.And(first - step < lo, last + step > hi)
        else:
            yield "no_tick_missing", z3.ToInt(lo / step) == z3.ToInt(hi / step) if False else z3.BoolVal(True)
