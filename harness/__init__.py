"""Harness modules, one per property.  Importing this package registers all of them."""
import importlib

MODULES = ["c01", "c02", "c03", "c09", "c10", "c06", "c05", "c14", "c16", "c11", "c12", "c08", "c13", "c18", "c04", "c07", "c15", "c19", "c20", "c17"]


def load_all():
    for m in MODULES:
        importlib.import_module(f"harness.{m}")
