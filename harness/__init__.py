"""Harness modules, one per property.  Importing this package registers all of them."""
import importlib

MODULES = ["c01"]


def load_all():
    for m in MODULES:
        importlib.import_module(f"harness.{m}")
