"""C16 - densities, bin geometry and cumulative values are consistent."""
from __future__ import annotations

import math

import z3

from symx.api import Harness, Raised, register
from symx.scalars import lift_num

from .common import declare_cells, declare_edges, getcell, nested, product_indices, rising_pairs, tolerance_band, zsum

PI = lift_num(math.pi)


def _tolist(a):
    return a.tolist() if hasattr(a, "tolist") else a


@register
class C16Geometry1D(Harness):
    prop = "C16"
    group = "geom1d"
    bounds_doc = "1D histograms with M<=3 irregular bins (edges or gapped pairs) and symbolic contents: densities*bin_sizes, widths/centers/left/right/min/max edges vs bins, total_width, cumulative_frequencies"

    def instances(self, tier):
        for M in (1, 2, 3):
            for gap in (False, True):
                if gap and M < 2:
                    continue
                for kind in ("int", "real"):
                    if tier == "quick" and kind == "real" and M == 3:
                        continue
                    yield f"g1d-M{M}-g{int(gap)}-{kind}", dict(M=M, gap=gap, kind=kind)
        # narrow integer dtypes: each content fits, the running sum need not
        yield "g1d-M3-int16", dict(M=3, gap=False, kind="int", dtype="int16")
        yield "g1d-M2-int32", dict(M=2, gap=False, kind="int", dtype="int32")

    def declare(self, cx, p):
        M = p["M"]
        if p.get("dtype"):
            x = {"f": cx.ints("f", M, 0, 2 ** (int(p["dtype"][3:]) - 1) - 1)}
        else:
            x = {"f": declare_cells(cx, "f", [M], p["kind"])}
        if not p["gap"]:
            e = declare_edges(cx, "e", M)
            x["l"], x["r"] = e[:-1], e[1:]
        else:
            x["l"], x["r"] = cx.reals("l", M), cx.reals("r", M)
            if cx.sym:
                L, R = [cx.t(i) for i in x["l"]], [cx.t(i) for i in x["r"]]
                cx.assume(rising_pairs(L, R), tolerance_band(L, R), L[1] > R[0])
        return x

    def drive(self, E, p, x):
        np = E.np
        H1 = E.mod("physt.histogram1d").Histogram1D
        SB = E.mod("physt.binnings").StaticBinning
        dt = p.get("dtype") or (int if p["kind"] == "int" else float)
        h = H1(SB([[l, r] for l, r in zip(x["l"], x["r"])]), np.asarray(x["f"], dtype=dt))
        return {"dens": _tolist(h.densities), "sizes": _tolist(h.bin_sizes), "widths": _tolist(h.bin_widths), "centers": _tolist(h.bin_centers),
                "left": _tolist(h.bin_left_edges), "right": _tolist(h.bin_right_edges), "min_edge": h.min_edge, "max_edge": h.max_edge,
                "total_width": h.total_width, "cum": _tolist(h.cumulative_frequencies), "total": h.total, "bins": _tolist(h.bins),
                "errors": None, "edges_view": self._edges_view(E, h), "slice_edges": self._slice_after_read(E, h, p["M"]), "merged": self._merged(E, h, p)}

    @staticmethod
    def _merged(E, h, p):
        """Geometry after merging all bins into one (M >= 2): the merged bin's size, or a refusal when the bins have a gap."""
        if p["M"] < 2:
            return None
        m = E.attempt(h.merge_bins, p["M"])
        if isinstance(m, Raised):
            return {"raised": m}
        return {"sizes": _tolist(m.bin_sizes), "total_width": m.total_width, "bins": _tolist(m.bins)}

    @staticmethod
    def _edges_view(E, h):
        r = E.attempt(lambda: h.edges)
        return {"raised": r} if isinstance(r, Raised) else _tolist(r)

    @staticmethod
    def _slice_after_read(E, h, M):
        """Edges of the slice h[0:M-1] taken AFTER the source's edges were read (cached views must not leak into the slice)."""
        if M < 2:
            return None
        sub = E.attempt(lambda: h[0:M - 1])
        if isinstance(sub, Raised):
            return {"raised": sub}
        e = E.attempt(lambda: sub.edges)
        return {"bins": _tolist(sub.bins), "edges": {"raised": e} if isinstance(e, Raised) else _tolist(e)}

    def oracle(self, cx, p, x, obs):
        M = p["M"]
        yield "no_exception", obs.get("raised") is None
        if obs.get("raised") is not None:
            return
        f = [cx.t(i) for i in x["f"]]
        L, R = [cx.t(i) for i in x["l"]], [cx.t(i) for i in x["r"]]
        for j in range(M):
            yield f"bins[{j}]", z3.And(cx.t(obs["bins"][j][0]) == L[j], cx.t(obs["bins"][j][1]) == R[j])
            yield f"left_right[{j}]", z3.And(cx.eq(obs["left"][j], L[j]), cx.eq(obs["right"][j], R[j]))
            yield f"width[{j}]", z3.And(cx.eq(obs["widths"][j], R[j] - L[j]), cx.eq(obs["sizes"][j], R[j] - L[j]))
            yield f"center[{j}]", cx.eq(obs["centers"][j], (L[j] + R[j]) / 2)
            yield f"density[{j}]", cx.quot_eq(obs["dens"][j], f[j], obs["sizes"][j])
            yield f"cumulative[{j}]", cx.eq(obs["cum"][j], zsum(f[: j + 1]))
        mg = obs["merged"]
        if mg is not None:
            if p["gap"]:
                # sizes are additive: a merged bin cannot swallow the gap (the merge is refused)
                yield "merge_across_gap_refused", "raised" in mg
            else:
                yield "merged_size_is_sum", "raised" not in mg and len(mg["sizes"]) == 1 and z3.And(cx.eq(mg["sizes"][0], R[-1] - L[0]), cx.eq(mg["total_width"], R[-1] - L[0]))
        ev = obs["edges_view"]
        if p["gap"]:
            # numpy-style edges cannot describe bins with a gap: refused, never a list that swallows the gap
            yield "edges_refused_for_gapped_bins", isinstance(ev, dict)
        else:
            yield "edges_view", (not isinstance(ev, dict)) and len(ev) == M + 1 and z3.And([cx.eq(ev[0], L[0])] + [cx.eq(ev[j + 1], R[j]) for j in range(M)])
        se = obs["slice_edges"]
        if se is not None and not p["gap"]:
            ok = "raised" not in se and not isinstance(se["edges"], dict) and len(se["edges"]) == M and len(se["bins"]) == M - 1
            yield "slice_edges_describe_the_slice", z3.And([cx.eq(se["edges"][0], L[0])] + [cx.eq(se["edges"][j + 1], R[j]) for j in range(M - 1)]) if ok else False
        yield "min_max_edge", z3.And(cx.eq(obs["min_edge"], L[0]), cx.eq(obs["max_edge"], R[-1]))
        yield "total_width", cx.eq(obs["total_width"], zsum(R[j] - L[j] for j in range(M)))
        yield "cumulative_ends_at_total", z3.And(cx.eq(obs["cum"][-1], cx.t(obs["total"])), cx.eq(obs["total"], zsum(f)))


@register
class C16Evolving1D(Harness):
    prop = "C16"
    group = "evolving1d"
    bounds_doc = "adaptive fixed-width 1D histogram (width 1 or 0.5) starting with 0 or 1 bins whose geometry (bins, edges, widths, centers, densities, total_width) is read, then N<=2 symbolic values in [-3, 3) are entered by fill / fill_n (bin range grows), geometry read again after each step: all geometry views agree with each other and with the contents"

    def instances(self, tier):
        for n0 in (0, 1):
            for way in ("fill", "fill_n"):
                for N in ((1, 2) if tier != "quick" else (1,) if n0 else (1, 2)):
                    for w in ((1.0,) if tier == "quick" else (1.0, 0.5)):
                        for touch in (("bins",), ("edges",), ("bins", "edges")):
                            if tier == "quick" and touch == ("edges",) and N == 2:
                                continue
                            yield f"ev-n{n0}-{way}-N{N}-w{w}-t{'+'.join(touch)}", dict(n0=n0, way=way, N=N, w=w, touch=list(touch))

    def declare(self, cx, p):
        x = {"v": [cx.pyfloat(f"v{i}") for i in range(p["N"])]}
        if cx.sym:
            cx.assume(*[z3.And(cx.t(v) >= -3, cx.t(v) < 3) for v in x["v"]])
        return x

    @staticmethod
    def _geom(h, touch):
        d = {}
        if "bins" in touch:
            d.update(bins=_tolist(h.bins), widths=_tolist(h.bin_widths), centers=_tolist(h.bin_centers), left=_tolist(h.bin_left_edges), right=_tolist(h.bin_right_edges),
                     total_width=h.total_width, dens=_tolist(h.densities), sizes=_tolist(h.bin_sizes))
        if "edges" in touch:
            d.update(edges=_tolist(h.edges))
        d.update(freq=_tolist(h.frequencies), cum=_tolist(h.cumulative_frequencies), total=h.total, bin_count=h.bin_count)
        return d

    def drive(self, E, p, x):
        np = E.np
        H1 = E.mod("physt.histogram1d").Histogram1D
        FWB = E.mod("physt.binnings").FixedWidthBinning
        if p["n0"] == 0:
            h = H1(FWB(bin_width=p["w"], bin_count=0, adaptive=True))
        else:
            h = H1(FWB(bin_width=p["w"], bin_count=1, bin_times_min=0, adaptive=True), np.asarray([0]))
        steps = [self._geom(h, p["touch"])]
        for v in x["v"]:
            r = E.attempt(h.fill, v) if p["way"] == "fill" else E.attempt(h.fill_n, np.asarray([v], dtype=float))
            if isinstance(r, Raised):
                return {"steps": steps, "op_raised": r}
            steps.append(self._geom(h, p["touch"]))
        steps.append(self._geom(h, ["bins", "edges"]))
        return {"steps": steps}

    def oracle(self, cx, p, x, obs):
        yield "no_exception", obs.get("raised") is None and obs.get("op_raised") is None
        if obs.get("raised") is not None or obs.get("op_raised") is not None:
            return
        w = z3.RealVal(str(p["w"]))
        vs = [cx.t(v) for v in x["v"]]
        for s, g in enumerate(obs["steps"]):
            n = len(g["freq"])
            entered = vs[: min(s, len(vs))]
            ok_shape = g["bin_count"] == n and len(g["cum"]) == n and all(len(g[k]) == n for k in ("bins", "widths", "centers", "left", "right", "dens", "sizes") if k in g) \
                and ("edges" not in g or n == 0 or len(g["edges"]) == n + 1)
            yield f"shapes_agree[{s}]", bool(ok_shape)
            if not ok_shape:
                continue
            yield f"total[{s}]", z3.And(cx.eq(g["total"], z3.IntVal(len(entered))), zsum([cx.t(f) for f in g["freq"]] + [z3.IntVal(0)]) == len(entered))
            if "bins" in g:
                B = g["bins"]
                conj = []
                for j in range(n):
                    l, r = cx.t(B[j][0]), cx.t(B[j][1])
                    conj += [r - l == w, cx.eq(g["left"][j], l), cx.eq(g["right"][j], r), cx.eq(g["widths"][j], w), cx.eq(g["sizes"][j], w), cx.eq(g["centers"][j], (l + r) / 2),
                             cx.t(g["dens"][j]) * w == cx.t(g["freq"][j]), cx.eq(g["cum"][j], zsum(cx.t(f) for f in g["freq"][: j + 1]))]
                    if j:
                        conj.append(l == cx.t(B[j - 1][1]))
                    # contents: the number of entered values lying in this bin
                    conj.append(cx.eq(g["freq"][j], zsum(z3.If(z3.And(l <= v, v < r), 1, 0) for v in entered)))
                conj.append(cx.eq(g["total_width"], n * w))
                yield f"geometry_consistent[{s}]", z3.And(conj) if conj else z3.BoolVal(True)
            if "edges" in g and n:
                Ed = [cx.t(e) for e in g["edges"]]
                conj = [Ed[j + 1] - Ed[j] == w for j in range(n)]
                conj += [cx.eq(g["freq"][j], zsum(z3.If(z3.And(Ed[j] <= v, v < Ed[j + 1]), 1, 0) for v in entered)) for j in range(n)]
                if "bins" in g:
                    conj += [z3.And(Ed[j] == cx.t(g["bins"][j][0]), Ed[j + 1] == cx.t(g["bins"][j][1])) for j in range(n)]
                yield f"edges_consistent[{s}]", z3.And(conj)


@register
class C16Evolving2D(Harness):
    prop = "C16"
    group = "evolving2d"
    bounds_doc = "2D histograms whose geometry (bin_sizes, densities, total_size, widths) is read, then changed in place - an adaptive 1x1 histogram (width 1) grown by fill / fill_n of one symbolic point in [-2, 3)^2, or a static 2x2 histogram with symbolic edges merged along one axis - and read again: the second reading describes the new bins"

    def instances(self, tier):
        for way in ("fill", "fill_n"):
            yield f"ev2d-grow-{way}", dict(mode="grow", way=way)
        for ax in (0, 1):
            yield f"ev2d-merge-ax{ax}", dict(mode="merge", axis=ax)

    def declare(self, cx, p):
        if p["mode"] == "grow":
            x = {"v": [cx.pyfloat("v0"), cx.pyfloat("v1")]}
            if cx.sym:
                cx.assume(*[z3.And(cx.t(v) >= -2, cx.t(v) < 3) for v in x["v"]])
            return x
        x = {"e": [declare_edges(cx, f"e{k}_", 2) for k in range(2)], "f": declare_cells(cx, "f", [2, 2], "real")}
        return x

    @staticmethod
    def _geom(h):
        return {"sizes": _tolist(h.bin_sizes), "dens": _tolist(h.densities), "total_size": h.total_size, "freq": _tolist(h.frequencies),
                "widths": [_tolist(h.get_bin_widths(a)) for a in range(2)], "bins": [_tolist(b) for b in h.bins], "shape": list(h.shape)}

    def drive(self, E, p, x):
        np = E.np
        nd = E.mod("physt.histogram_nd")
        if p["mode"] == "grow":
            FWB = E.mod("physt.binnings").FixedWidthBinning
            h = nd.Histogram2D([FWB(bin_width=1.0, bin_count=1, bin_times_min=0, adaptive=True) for _ in range(2)], np.asarray([[1.0]]))
            first = self._geom(h)
            r = E.attempt(h.fill, list(x["v"])) if p["way"] == "fill" else E.attempt(h.fill_n, np.asarray([x["v"]], dtype=float))
        else:
            h = nd.Histogram2D([np.asarray(e) for e in x["e"]], np.asarray(nested(x["f"], [2, 2]), dtype=float))
            first = self._geom(h)
            r = E.attempt(h.merge_bins, 2, axis=p["axis"], inplace=True)
        if isinstance(r, Raised):
            return {"first": first, "op_raised": r}
        second = E.attempt(self._geom, h)
        return {"first": first, "second": {"raised": second} if isinstance(second, Raised) else second}

    def oracle(self, cx, p, x, obs):
        yield "no_exception", obs.get("raised") is None and obs.get("op_raised") is None
        if obs.get("raised") is not None or obs.get("op_raised") is not None:
            return
        g = obs["second"]
        yield "geometry_readable_after_change", "raised" not in g
        if "raised" in g:
            return
        shape = g["shape"]
        yield "shapes_agree", _dims2(g["sizes"]) == shape == _dims2(g["dens"]) == _dims2(g["freq"]) and [len(b) for b in g["bins"]] == shape
        if not (_dims2(g["sizes"]) == shape == _dims2(g["dens"]) == _dims2(g["freq"])):
            return
        tot = z3.RealVal(0)
        for i in range(shape[0]):
            for j in range(shape[1]):
                size = (cx.t(g["bins"][0][i][1]) - cx.t(g["bins"][0][i][0])) * (cx.t(g["bins"][1][j][1]) - cx.t(g["bins"][1][j][0]))
                tot = tot + size
                yield f"bin_size[{i},{j}]", z3.And(cx.eq(g["sizes"][i][j], size), cx.eq(g["widths"][0][i], cx.t(g["bins"][0][i][1]) - cx.t(g["bins"][0][i][0])))
                yield f"density[{i},{j}]", cx.quot_eq(g["dens"][i][j], cx.t(g["freq"][i][j]), g["sizes"][i][j])
        yield "total_size", cx.eq(g["total_size"], tot)
        if p["mode"] == "merge":
            e = [[cx.t(t) for t in ax] for ax in x["e"]]
            a = p["axis"]
            yield "merged_shape", shape == ([1, 2] if a == 0 else [2, 1])
            yield "merged_total_size", cx.eq(g["total_size"], (e[0][2] - e[0][0]) * (e[1][2] - e[1][0]))


def _dims2(a):
    return [len(a), len(a[0]) if a and isinstance(a[0], list) else 0] if isinstance(a, list) else None


@register
class C16GeometryND(Harness):
    prop = "C16"
    group = "geomnd"
    bounds_doc = "2D/3D histograms (shapes 2x2, 2x1x2; thorough 3x2, 2x2x2) with irregular symbolic edges: bin_sizes = product of widths, densities, total_size, per-axis and mesh forms of left/right/center/width/edges"

    def instances(self, tier):
        for shape in ([(2, 2), (2, 1, 2)] if tier == "quick" else [(2, 2), (3, 2), (2, 1, 2), (2, 2, 2)]):
            yield f"gnd-S{'x'.join(map(str, shape))}", dict(shape=list(shape))
        # an axis whose two bins are separated by a gap (StaticBinning from pairs): widths / sizes do not include the gap
        yield "gnd-S2x2-gap0", dict(shape=[2, 2], gap=0)
        yield "gnd-S2x2-gap1", dict(shape=[2, 2], gap=1)

    def declare(self, cx, p):
        shape = p["shape"]
        x = {"f": declare_cells(cx, "f", shape, "real"), "e": [declare_edges(cx, f"e{k}_", shape[k]) for k in range(len(shape))]}
        if p.get("gap") is not None:
            x["g"] = cx.real("g")     # width of the gap between the two bins of the gapped axis
            if cx.sym:
                cx.assume(x["g"] > 0, x["g"] <= 8)
        return x

    def drive(self, E, p, x):
        np = E.np
        nd = E.mod("physt.histogram_nd")
        shape = p["shape"]
        D = len(shape)
        cls = nd.Histogram2D if D == 2 else nd.HistogramND
        bins = [np.asarray(x["e"][k]) for k in range(D)]
        if p.get("gap") is not None:
            e = x["e"][p["gap"]]
            bins[p["gap"]] = np.asarray([[e[0], e[1]], [e[1] + x["g"], e[2] + x["g"]]])
        h = cls(bins, np.asarray(nested(x["f"], shape), dtype=float))
        if p.get("gap") is not None:
            k = p["gap"]
            return {"gapped": True, "sizes": _tolist(h.bin_sizes), "dens": _tolist(h.densities), "total_size": h.total_size, "total": h.total,
                    "widths": [_tolist(h.get_bin_widths(a)) for a in range(D)], "mesh_widths": [_tolist(a) for a in h.get_bin_widths()],
                    "left": [_tolist(h.get_bin_left_edges(a)) for a in range(D)], "right": [_tolist(h.get_bin_right_edges(a)) for a in range(D)],
                    "centers": [_tolist(h.get_bin_centers(a)) for a in range(D)]}
        obs = {"sizes": _tolist(h.bin_sizes), "dens": _tolist(h.densities), "total_size": h.total_size, "total": h.total,
               "left": [_tolist(h.get_bin_left_edges(k)) for k in range(D)], "right": [_tolist(h.get_bin_right_edges(k)) for k in range(D)],
               "centers": [_tolist(h.get_bin_centers(k)) for k in range(D)], "widths": [_tolist(h.get_bin_widths(k)) for k in range(D)],
               "edges": [_tolist(h.get_bin_edges(k)) for k in range(D)], "mesh_edges": [_tolist(a) for a in h.get_bin_edges()],
               "mesh_left": [_tolist(a) for a in h.get_bin_left_edges()], "mesh_right": [_tolist(a) for a in h.get_bin_right_edges()],
               "mesh_centers": [_tolist(a) for a in h.get_bin_centers()], "mesh_widths": [_tolist(a) for a in h.get_bin_widths()]}
        return obs

    def oracle(self, cx, p, x, obs):
        shape = p["shape"]
        D = len(shape)
        yield "no_exception", obs.get("raised") is None
        if obs.get("raised") is not None:
            return
        e = [[cx.t(t) for t in x["e"][k]] for k in range(D)]
        idxs = product_indices(shape)
        f = {idx: cx.t(v) for idx, v in zip(idxs, x["f"])}
        if obs.get("gapped"):
            g = cx.t(x["g"])
            L = [[e[k][0], e[k][1] + (g if k == p["gap"] else 0)] for k in range(D)]
            R = [[e[k][1], e[k][2] + (g if k == p["gap"] else 0)] for k in range(D)]
            for k in range(D):
                for j in range(2):
                    yield f"axis[{k}][{j}]", z3.And(cx.eq(obs["left"][k][j], L[k][j]), cx.eq(obs["right"][k][j], R[k][j]), cx.eq(obs["widths"][k][j], R[k][j] - L[k][j]),
                                                     cx.eq(obs["centers"][k][j], (L[k][j] + R[k][j]) / 2))
            tot = z3.RealVal(0)
            for idx in idxs:
                size = (R[0][idx[0]] - L[0][idx[0]]) * (R[1][idx[1]] - L[1][idx[1]])
                tot = tot + size
                tag = ",".join(map(str, idx))
                yield f"bin_size[{tag}]", cx.eq(getcell(obs["sizes"], idx), size)
                yield f"density[{tag}]", cx.quot_eq(getcell(obs["dens"], idx), f[idx], getcell(obs["sizes"], idx))
                yield f"mesh_widths[{tag}]", z3.And([cx.eq(getcell(obs["mesh_widths"][k], idx), R[k][idx[k]] - L[k][idx[k]]) for k in range(D)])
            yield "total_size_excludes_the_gap", cx.eq(obs["total_size"], tot)
            return
        for k in range(D):
            for j in range(shape[k]):
                yield f"axis[{k}][{j}]", z3.And(cx.eq(obs["left"][k][j], e[k][j]), cx.eq(obs["right"][k][j], e[k][j + 1]), cx.eq(obs["widths"][k][j], e[k][j + 1] - e[k][j]),
                                                 cx.eq(obs["centers"][k][j], (e[k][j] + e[k][j + 1]) / 2), cx.eq(obs["edges"][k][j], e[k][j]))
            yield f"last_edge[{k}]", cx.eq(obs["edges"][k][shape[k]], e[k][shape[k]])
        for idx in idxs:
            size = z3.RealVal(1)
            for k in range(D):
                size = size * (e[k][idx[k] + 1] - e[k][idx[k]])
            tag = ",".join(map(str, idx))
            yield f"bin_size[{tag}]", cx.eq(getcell(obs["sizes"], idx), size)
            yield f"density[{tag}]", cx.quot_eq(getcell(obs["dens"], idx), f[idx], getcell(obs["sizes"], idx))
            yield f"mesh[{tag}]", z3.And([z3.And(cx.eq(getcell(obs["mesh_left"][k], idx), e[k][idx[k]]), cx.eq(getcell(obs["mesh_right"][k], idx), e[k][idx[k] + 1]),
                                                  cx.eq(getcell(obs["mesh_widths"][k], idx), e[k][idx[k] + 1] - e[k][idx[k]]),
                                                  cx.eq(getcell(obs["mesh_centers"][k], idx), (e[k][idx[k]] + e[k][idx[k] + 1]) / 2)) for k in range(D)])
        # the mesh form of the edges: D full grids of shape (n0+1, n1+1, ...), grid k holding axis k's edge at every node
        for idx in product_indices([n + 1 for n in shape]):
            yield f"mesh_edges[{','.join(map(str, idx))}]", z3.And([cx.eq(getcell(obs["mesh_edges"][k], idx), e[k][idx[k]]) for k in range(D)])
        tot = z3.RealVal(1)
        for k in range(D):
            tot = tot * (e[k][-1] - e[k][0])
        yield "total_size", cx.eq(obs["total_size"], tot)


CLASSES = {
    # name: (class, axes kinds)
    "polar": ("PolarHistogram", ["r", "phi"]),
    "radial": ("RadialHistogram", ["r"]),
    "azimuthal": ("AzimuthalHistogram", ["phi"]),
    "spherical": ("SphericalHistogram", ["r", "theta", "phi"]),
    "sphere_surface": ("SphericalSurfaceHistogram", ["theta", "phi"]),
    "cylindrical": ("CylindricalHistogram", ["r", "phi", "z"]),
    "cylinder_surface": ("CylindricalSurfaceHistogram", ["phi", "z"]),
}


def _decl_axis(cx, name, kind, m, full):
    if full and kind in ("phi", "theta"):
        top = 2 * math.pi if kind == "phi" else math.pi
        if m == 1:
            return [0.0, top]
        mid = cx.reals(name, m - 1)
        if cx.sym:
            prev = 0
            for t in mid:
                cx.assume(t > prev, t < top)
                prev = t
        return [0.0] + mid + [top]
    e = cx.reals(name, m + 1)
    if cx.sym:
        cx.assume(*[e[j] < e[j + 1] for j in range(m)])
        if kind == "r":
            cx.assume(e[0] >= 0)
        elif kind == "phi":
            cx.assume(e[0] >= 0, e[-1] <= 2 * math.pi)
        elif kind == "theta":
            cx.assume(e[0] >= 0, e[-1] <= math.pi)
    return e


@register
class C16Transformed(Harness):
    prop = "C16"
    group = "transformed"
    stubs = ("cos as an uninterpreted function with sound axioms (range, cos 0 = 1, cos pi = -1, monotone on [0, pi])",)
    bounds_doc = "the six transformed classes + cylinder surface with M<=2 bins per axis, symbolic edges in range and symbolic contents: bin_sizes equals the class' measure formula, densities*bin_sizes = frequencies, additivity when two adjacent bins are merged on any axis, closed forms for full angular ranges"

    def instances(self, tier):
        for name, (cls, kinds) in CLASSES.items():
            D = len(kinds)
            yield f"tr-{name}-formula", dict(cls=name, shape=[2] + [1] * (D - 1) if D > 1 else [2], mode="formula")
            if D > 1:
                yield f"tr-{name}-formula2", dict(cls=name, shape=[1] * (D - 1) + [2], mode="formula")
            for ax in range(D):
                if tier == "quick" and ax > 0 and D == 3 and ax != 1:
                    continue
                yield f"tr-{name}-additive{ax}", dict(cls=name, shape=[1] * D, mode="additive", axis=ax)
            yield f"tr-{name}-full", dict(cls=name, shape=[2 if (k == "theta" or (k == "phi" and "theta" not in kinds)) else 1 for k in kinds], mode="full")
        # cylinder surface carrying a radius != 1 (constructor argument, attribute, or set by CylindricalHistogram.projection("phi", "z"))
        for how in ("ctor", "attr", "projection"):
            yield f"tr-cylinder_surface-formula-radius-{how}", dict(cls="cylinder_surface", shape=[2, 1], mode="formula", radius=how)

    def declare(self, cx, p):
        kinds = CLASSES[p["cls"]][1]
        shape = p["shape"]
        x = {"e": []}
        for k, kind in enumerate(kinds):
            m = shape[k] + (1 if p["mode"] == "additive" and p["axis"] == k else 0)
            x["e"].append(_decl_axis(cx, f"e{k}_", kind, m, p["mode"] == "full"))
        n = 1
        for s in shape:
            n *= s
        x["f"] = declare_cells(cx, "f", shape, "real")
        if p.get("radius"):
            x["R"] = cx.pyfloat("R")
            if cx.sym:
                cx.assume(x["R"] > 0, x["R"] <= 100)
        return x

    def _build(self, E, p, edges, f, shape):
        np = E.np
        sp = E.mod("physt.special_histograms")
        cls = getattr(sp, CLASSES[p["cls"]][0])
        bins = [np.asarray(e) for e in edges]
        if len(shape) == 1:
            return cls(bins[0], np.asarray(f, dtype=float))
        how = p.get("radius")
        if how == "ctor":
            return cls(bins, np.asarray(nested(f, shape), dtype=float), radius=self._R)
        if how == "projection":
            # a cylindrical histogram with one rho bin [0, R] projected onto (phi, z): the projection sets radius = R
            cyl = sp.CylindricalHistogram([np.asarray([0.0, self._R])] + bins, np.asarray([nested(f, shape)], dtype=float))
            return cyl.projection("phi", "z")
        h = cls(bins, np.asarray(nested(f, shape), dtype=float))
        if how == "attr":
            h.radius = self._R
        return h

    def drive(self, E, p, x):
        shape = p["shape"]
        self._R = x.get("R")
        if p["mode"] == "additive":
            ax = p["axis"]
            fine_shape = list(shape)
            fine_shape[ax] += 1
            n = 1
            for s in fine_shape:
                n *= s
            fine = self._build(E, p, x["e"], [0.0] * n, fine_shape)
            coarse_edges = [list(e) for e in x["e"]]
            coarse_edges[ax] = [coarse_edges[ax][0], coarse_edges[ax][-1]]
            coarse = self._build(E, p, coarse_edges, [0.0] * (n // 2), shape)
            return {"fine": _tolist(fine.bin_sizes), "coarse": _tolist(coarse.bin_sizes)}
        h = self._build(E, p, x["e"], x["f"], shape)
        return {"sizes": _tolist(h.bin_sizes), "dens": _tolist(h.densities), "total": h.total, "total_size": h.total_size if len(shape) > 1 else h.total_width, "cls": type(h).__name__}

    def _measure(self, cx, kinds, lo, hi):
        """Reference measure of the box [lo, hi] (lists of z3 terms per axis) - returns (poly, cos_pairs)."""
        from symx import transcend

        m = z3.RealVal(1)
        name = tuple(kinds)
        for k, kind in enumerate(kinds):
            a, b = lo[k], hi[k]
            if kind == "r":
                if name == ("r",):
                    m = m * PI * (b * b - a * a)
                elif "theta" in kinds:
                    m = m * (b * b * b - a * a * a) / 3
                else:
                    m = m * (b * b - a * a) / 2
            elif kind in ("phi", "z"):
                m = m * (b - a)
            else:  # theta: cos a - cos b, with the engine's uninterpreted cos (same symbol physt's code produced)
                m = m * (self._cos(a) - self._cos(b))
        return m

    @staticmethod
    def _cos(t):
        from symx import transcend
        import math as _m

        t = z3.simplify(t)
        if z3.is_rational_value(t):
            v = float(t.numerator_as_long()) / float(t.denominator_as_long())
            return lift_num(_m.cos(v))
        return transcend._UF["cos"](t)

    def oracle(self, cx, p, x, obs):
        kinds = CLASSES[p["cls"]][1]
        shape = p["shape"]
        D = len(kinds)
        yield "no_exception", obs.get("raised") is None
        if obs.get("raised") is not None:
            return
        e = [[cx.t(t) for t in x["e"][k]] for k in range(D)]
        if p["mode"] == "additive":
            ax = p["axis"]
            fine, coarse = obs["fine"], obs["coarse"]
            idx0 = tuple([0] * D)
            idx1 = tuple(1 if k == ax else 0 for k in range(D))
            if D == 1:
                a, b, c = cx.t(fine[0]), cx.t(fine[1]), cx.t(coarse[0])
            else:
                a, b, c = cx.t(getcell(fine, idx0)), cx.t(getcell(fine, idx1)), cx.t(getcell(coarse, idx0))
            yield "additive", a + b == c
            yield "positive", z3.And(a >= 0, b >= 0)
            return
        idxs = product_indices(shape)
        f = {idx: cx.t(v) for idx, v in zip(idxs, x["f"])}
        sizes = {}
        for idx in idxs:
            lo = [e[k][idx[k]] for k in range(D)]
            hi = [e[k][idx[k] + 1] for k in range(D)]
            ref = self._measure(cx, kinds, lo, hi)
            got = obs["sizes"][idx[0]] if D == 1 else getcell(obs["sizes"], idx)
            dens = obs["dens"][idx[0]] if D == 1 else getcell(obs["dens"], idx)
            sizes[idx] = cx.t(got) if cx.finite(got) else z3.RealVal(0)
            tag = ",".join(map(str, idx))
            yield f"bin_size[{tag}]", cx.eq(got, ref)
            yield f"density[{tag}]", cx.quot_eq(dens, f[idx], got)
        if p.get("radius"):
            lo = [e[k][0] for k in range(D)]
            hi = [e[k][-1] for k in range(D)]
            yield "total_size_in_own_coordinates", cx.eq(obs["total_size"], self._measure(cx, kinds, lo, hi))
            yield "class", obs["cls"] == "CylindricalSurfaceHistogram"
        if p["mode"] == "full":
            lo = [e[k][0] for k in range(D)]
            hi = [e[k][-1] for k in range(D)]
            whole = self._measure(cx, kinds, lo, hi)
            yield "sizes_sum_to_region_measure", zsum(sizes.values()) == whole
            if D > 1:
                yield "total_size_is_region_measure", cx.eq(obs["total_size"], whole)
