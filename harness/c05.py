"""C05 - adding histograms equals histogramming the combined data."""
from __future__ import annotations

import itertools

import z3

from symx.api import Harness, Raised, register

from .common import declare_cells, declare_edges, getcell, in_bin, nested, product_indices, snap1d, snapnd, zsum

STAT_KEYS = ("sum", "sum2", "min", "max", "weight")


def _stats(E, h):
    s = h.statistics
    return {k: getattr(s, k) for k in STAT_KEYS + ("median",)}


def _declare_h(cx, tag, M, kind):
    if kind == "f32":
        # a float32 histogram: integer-valued contents below 2^20 (exact in binary32; its rounding is not modelled)
        x = {"f": [cx.int(f"{tag}f{j}", 0, 2 ** 20) for j in range(M)], "q": [cx.int(f"{tag}q{j}", 0, 2 ** 20) for j in range(M)],
             "u": cx.int(f"{tag}u", 0, 2 ** 20), "o": cx.int(f"{tag}o", 0, 2 ** 20), "s": [cx.pyfloat(f"{tag}s{n}") for n in STAT_KEYS]}
        if cx.sym:
            cx.assume(x["s"][4] >= 0, x["s"][2] <= x["s"][3])
        return x
    x = {"f": declare_cells(cx, f"{tag}f", [M], kind), "q": declare_cells(cx, f"{tag}q", [M], kind),
         "u": cx.int(f"{tag}u", 0) if kind == "int" else cx.real(f"{tag}u"), "o": cx.int(f"{tag}o", 0) if kind == "int" else cx.real(f"{tag}o"),
         "s": [cx.pyfloat(f"{tag}s{n}") for n in STAT_KEYS]}
    if cx.sym:
        if kind != "int":
            cx.assume(x["u"] >= 0, x["o"] >= 0)
        cx.assume(x["s"][4] >= 0, x["s"][2] <= x["s"][3])
    return x


def _mk(E, edges, hx, kind, name=None):
    np = E.np
    H1 = E.mod("physt.histogram1d").Histogram1D
    St = E.mod("physt.statistics").Statistics
    dt = int if kind == "int" else ("float32" if kind == "f32" else float)
    s = hx["s"]
    return H1(np.asarray(edges), np.asarray(hx["f"], dtype=dt), np.asarray(hx["q"], dtype=dt), underflow=hx["u"], overflow=hx["o"],
              stats=St(sum=s[0], sum2=s[1], min=s[2], max=s[3], weight=s[4]), name=name)


def _full(E, h):
    d = snap1d(E, h)
    d["stats"] = _stats(E, h)
    d["name"] = h.name
    return d


@register
class C05Algebra(Harness):
    prop = "C05"
    group = "algebra"
    bounds_doc = "2 or 3 arbitrary 1D histograms over the same M<=2 (quick) / M<=3 bins with symbolic contents, errors2, under/overflow and statistics, int and float dtypes mixed: a+b, b+a, (a+b)+c, a+(b+c), sum() in every order, +=, HistogramCollection.sum; operands unchanged"

    def instances(self, tier):
        kinds = [("int", "int", "int"), ("int", "real", "int"), ("real", "real", "real")]
        for M in ((2,) if tier == "quick" else (1, 3)):
            for ks in kinds:
                yield f"comm-M{M}-{ks[0]}{ks[1]}", dict(mode="comm", M=M, kinds=list(ks[:2]))
                yield f"iadd-M{M}-{ks[0]}{ks[1]}", dict(mode="iadd", M=M, kinds=list(ks[:2]))
                yield f"assoc-M{M}-{''.join(k[0] for k in ks)}", dict(mode="assoc", M=M, kinds=list(ks))
            for perm in itertools.permutations(range(3)):
                if tier == "quick" and perm not in ((0, 1, 2), (2, 0, 1), (1, 0, 2)):
                    continue
                yield f"sum-M{M}-{''.join(map(str, perm))}", dict(mode="sum", M=M, kinds=["int", "real", "int"], perm=list(perm))
            yield f"colsum-M{M}", dict(mode="colsum", M=M, kinds=["int", "int", "int"])
            # a narrower float operand: numpy promotion (int64 + float32 -> float64, float32 + float32 -> float32), both orders
            for ks in (("int", "f32"), ("f32", "f32"), ("real", "f32")):
                yield f"comm-M{M}-{'-'.join(ks)}", dict(mode="comm", M=M, kinds=list(ks))
                yield f"iadd-M{M}-{'-'.join(ks)}", dict(mode="iadd", M=M, kinds=list(ks))
            yield f"sum1-M{M}", dict(mode="sum1", M=M, kinds=["int"])

    def declare(self, cx, p):
        M = p["M"]
        x = {"e": declare_edges(cx, "e", M), "h": [_declare_h(cx, "abc"[i], M, k) for i, k in enumerate(p["kinds"])]}
        return x

    def drive(self, E, p, x):
        hs = [_mk(E, x["e"], hx, k, name="n") for hx, k in zip(x["h"], p["kinds"])]
        mode = p["mode"]
        obs = {}
        if mode == "comm":
            obs["r1"] = _full(E, hs[0] + hs[1])
            obs["r2"] = _full(E, hs[1] + hs[0])
        elif mode == "iadd":
            g = hs[0].copy()
            g += hs[1]
            obs["r1"] = _full(E, g)
            obs["r2"] = _full(E, hs[0] + hs[1])
        elif mode == "assoc":
            obs["r1"] = _full(E, (hs[0] + hs[1]) + hs[2])
            obs["r2"] = _full(E, hs[0] + (hs[1] + hs[2]))
        elif mode == "sum":
            r = sum([hs[i] for i in p["perm"]])
            obs["r1"] = _full(E, r)
            obs["r2"] = _full(E, hs[0] + hs[1] + hs[2])
            obs["distinct"] = all(r is not h for h in hs)
        elif mode == "colsum":
            HC = E.mod("physt.histogram_collection").HistogramCollection
            b = hs[0].binning
            for h in hs[1:]:
                h._binning = b
            col = HC(*hs)
            r = col.sum()
            obs["r1"] = _full(E, r)
            obs["r2"] = _full(E, hs[0] + hs[1] + hs[2])
            obs["distinct"] = all(r is not h for h in hs)
        else:
            r = sum([hs[0]])
            obs["r1"] = _full(E, r)
            obs["r2"] = _full(E, hs[0])
            obs["distinct"] = r is not hs[0]
            r += hs[0]            # accumulating into the total must not touch the (single) summand
        obs["after"] = [_full(E, h) for h in hs]
        return obs

    def oracle(self, cx, p, x, obs):
        M = p["M"]
        yield "no_exception", obs.get("raised") is None
        if obs.get("raised") is not None:
            return
        n = len(p["kinds"])
        F = [[cx.t(v) for v in hx["f"]] for hx in x["h"]]
        Q = [[cx.t(v) for v in hx["q"]] for hx in x["h"]]
        U = [cx.t(hx["u"]) for hx in x["h"]]
        O = [cx.t(hx["o"]) for hx in x["h"]]
        S = [[cx.t(v) for v in hx["s"]] for hx in x["h"]]

        def zmin(ts):
            r = ts[0]
            for t in ts[1:]:
                r = z3.If(t < r, t, r)
            return r

        def zmax(ts):
            r = ts[0]
            for t in ts[1:]:
                r = z3.If(t > r, t, r)
            return r

        for key in ("r1", "r2"):
            r = obs[key]
            for j in range(M):
                yield f"{key}_content[{j}]", cx.eq(r["freq"][j], zsum(F[i][j] for i in range(n)))
                yield f"{key}_err2[{j}]", cx.eq(r["err2"][j], zsum(Q[i][j] for i in range(n)))
                yield f"{key}_bins[{j}]", z3.And(cx.t(r["bins"][j][0]) == cx.t(x["e"][j]), cx.t(r["bins"][j][1]) == cx.t(x["e"][j + 1]))
            yield f"{key}_underflow", cx.eq(r["under"], zsum(U))
            yield f"{key}_overflow", cx.eq(r["over"], zsum(O))
            st = r["stats"]
            yield f"{key}_stats_sums", z3.And(cx.eq(st["sum"], zsum(s[0] for s in S)), cx.eq(st["sum2"], zsum(s[1] for s in S)), cx.eq(st["weight"], zsum(s[4] for s in S)))
            yield f"{key}_stats_minmax", z3.And(cx.eq(st["min"], zmin([s[2] for s in S])), cx.eq(st["max"], zmax([s[3] for s in S])))
            ks = set(p["kinds"])
            expected_dtype = "float64" if ("real" in ks or ks == {"int", "f32"}) else ("float32" if ks == {"f32"} else "int64")
            yield f"{key}_dtype", r["dtype"] == expected_dtype == r["fdtype"] == r["edtype"]
            yield f"{key}_name", r["name"] == "n"
        if "distinct" in obs:
            yield "result_is_a_new_object", obs["distinct"] is True
        for i in range(n):
            a = obs["after"][i]
            yield f"operand_unchanged[{i}]", z3.And([cx.eq(a["freq"][j], F[i][j]) for j in range(M)] + [cx.eq(a["err2"][j], Q[i][j]) for j in range(M)]
                                                   + [cx.eq(a["under"], U[i]), cx.eq(a["over"], O[i]), cx.eq(a["stats"]["sum"], S[i][0]), cx.eq(a["stats"]["weight"], S[i][4]),
                                                      z3.BoolVal(a["dtype"] == {"real": "float64", "f32": "float32"}.get(p["kinds"][i], "int64"))])


@register
class C05Adaptive(Harness):
    prop = "C05"
    group = "adaptive"
    assumptions_doc = ("C05 adaptive/chunks: bin widths in (1e-9, 1e-6) are excluded (has_same_bins compares with np.allclose; at that scale the verdict depends on float rounding of the tolerance, which R-mode cannot decide); widths <= 1e-9 are covered and are the recorded finding",)
    bounds_doc = "two adaptive fixed-width 1D histograms on one grid: symbolic width, shift, times_min in [-3,3], bin counts 0..2 (quick) / 0..3, symbolic contents; a+b and b+a; also 2D (thorough) axis-wise"

    def instances(self, tier):
        rng = (0, 1, 2) if tier == "quick" else (0, 1, 2, 3)
        for n1, n2 in itertools.product(rng, rng):
            if tier == "quick" and n1 + n2 > 3:
                continue
            yield f"adapt-{n1}-{n2}", dict(n=[n1, n2], shift=(n1 + n2) % 2 == 1)
        # operands that carry underflow / overflow: the sum is refused or accounts for all of it (nothing is dropped silently)
        for n1, n2 in ((1, 1), (2, 1), (1, 2)):
            yield f"adapt-{n1}-{n2}-missed", dict(n=[n1, n2], shift=False, missed=True)

    def declare(self, cx, p):
        x = {"w": cx.pyfloat("w"), "t": [cx.pyint(f"t{i}", -3, 3) for i in range(2)],
             "f": [declare_cells(cx, f"{'ab'[i]}f", [p["n"][i]], "int") for i in range(2)],
             "q": [declare_cells(cx, f"{'ab'[i]}q", [p["n"][i]], "int") for i in range(2)]}
        if p["shift"]:
            x["s"] = cx.pyfloat("s")
        if p.get("missed"):
            x["uo"] = [[cx.int(f"{'ab'[i]}u", 0, 9), cx.int(f"{'ab'[i]}o", 0, 9)] for i in range(2)]
        # value statistics of both operands (sum, sum2, min, max, weight): merged by an addition on a grown grid as on equal bins
        x["st"] = [[cx.pyfloat(f"{'ab'[i]}s{k}") for k in STAT_KEYS] for i in range(2)]
        if cx.sym:
            for st in x["st"]:
                cx.assume(st[4] >= 0, st[2] <= st[3])
            cx.assume(x["w"] > 0)
            cx.define("tiny_width", cx.t(x["w"]) <= z3.Q(1, 10**9))
            cx.assume(z3.Or(cx.t(x["w"]) <= z3.Q(1, 10**9), cx.t(x["w"]) >= z3.Q(1, 10**6)))
            if p["shift"]:
                cx.assume(x["s"] >= 0, x["s"] < x["w"])
        return x

    def _mk(self, E, p, x, i):
        np = E.np
        FWB = E.mod("physt.binnings").FixedWidthBinning
        H1 = E.mod("physt.histogram1d").Histogram1D
        n = p["n"][i]
        kw = dict(bin_width=x["w"], bin_count=n, adaptive=True)
        if n:
            kw["bin_times_min"] = x["t"][i]
        if p["shift"]:
            kw["bin_shift"] = x["s"]
        b = FWB(**kw)
        St = E.mod("physt.statistics").Statistics
        st = x["st"][i]
        mkw = dict(underflow=x["uo"][i][0], overflow=x["uo"][i][1]) if p.get("missed") else {}
        return H1(b, np.asarray(x["f"][i], dtype=int), np.asarray(x["q"][i], dtype=int), stats=St(sum=st[0], sum2=st[1], min=st[2], max=st[3], weight=st[4]), **mkw)

    def drive(self, E, p, x):
        a, b = self._mk(E, p, x, 0), self._mk(E, p, x, 1)
        r1 = E.attempt(lambda: a + b)
        r2 = E.attempt(lambda: b + a)
        obs = {"after": [snap1d(E, a), snap1d(E, b)]}
        for k, r in (("r1", r1), ("r2", r2)):
            if isinstance(r, Raised):
                obs[k] = {"raised": r}
            else:
                obs[k] = snap1d(E, r)
                obs[k]["adaptive"] = r.is_adaptive()
                obs[k]["stats"] = _stats(E, r)
        return obs

    def oracle(self, cx, p, x, obs):
        n = p["n"]
        w = cx.t(x["w"])
        s = cx.t(x["s"]) if p["shift"] else z3.RealVal(0)
        t = [cx.t(i) for i in x["t"]]
        F = [[cx.t(v) for v in x["f"][i]] for i in range(2)]
        Q = [[cx.t(v) for v in x["q"][i]] for i in range(2)]
        for key in ("r1", "r2"):
            r = obs[key]
            if p.get("missed"):
                if "raised" in r:
                    yield f"{key}_refusal_kind", r["raised"].name == "ValueError"
                    continue
                UO = [[cx.t(v) for v in uo] for uo in x["uo"]]
                yield f"{key}_missed_accounted", z3.And(cx.eq(r["under"], UO[0][0] + UO[1][0]), cx.eq(r["over"], UO[0][1] + UO[1][1]))
            else:
                yield f"{key}_no_exception", "raised" not in r
            if "raised" in r:
                continue
            S = [[cx.t(v) for v in st] for st in x["st"]]
            rs = r["stats"]
            yield f"{key}_stats_sums", z3.And(cx.eq(rs["sum"], S[0][0] + S[1][0]), cx.eq(rs["sum2"], S[0][1] + S[1][1]), cx.eq(rs["weight"], S[0][4] + S[1][4]))
            yield f"{key}_stats_minmax", z3.And(cx.eq(rs["min"], z3.If(S[0][2] < S[1][2], S[0][2], S[1][2])), cx.eq(rs["max"], z3.If(S[0][3] > S[1][3], S[0][3], S[1][3])))
            if n[0] == 0 and n[1] == 0:
                yield f"{key}_empty", len(r["freq"]) == 0
                continue
            present = [i for i in range(2) if n[i]]
            lo = t[present[0]] if len(present) == 1 else z3.If(t[0] < t[1], t[0], t[1])
            hi_terms = [t[i] + n[i] for i in present]
            hi = hi_terms[0] if len(hi_terms) == 1 else z3.If(hi_terms[0] > hi_terms[1], hi_terms[0], hi_terms[1])
            Mr = len(r["freq"])
            yield f"{key}_span", z3.And(hi - lo == Mr, cx.eq(r["shape"][0], z3.IntVal(Mr)))
            for k in range(Mr):
                g = lo + k
                yield f"{key}_edges[{k}]", z3.And(cx.t(r["bins"][k][0]) == g * w + s, cx.t(r["bins"][k][1]) == (g + 1) * w + s)
                ref = zsum(z3.If(g - t[i] == j, F[i][j], 0) for i in present for j in range(n[i]))
                ref2 = zsum(z3.If(g - t[i] == j, Q[i][j], 0) for i in present for j in range(n[i]))
                yield f"{key}_content[{k}]", cx.eq(r["freq"][k], ref)
                yield f"{key}_err2[{k}]", cx.eq(r["err2"][k], ref2)
            yield f"{key}_total", cx.eq(r["total"], zsum(v for i in range(2) for v in F[i]))
            if not p.get("missed"):
                yield f"{key}_missed_zero", z3.And(cx.eq(r["under"], 0), cx.eq(r["over"], 0))
        for i in range(2):
            a = obs["after"][i]
            yield f"operand_unchanged[{i}]", z3.And([z3.BoolVal(len(a["freq"]) == n[i])] + [cx.eq(a["freq"][j], F[i][j]) for j in range(min(n[i], len(a["freq"])))]
                                                   + [cx.t(a["bins"][j][0]) == (t[i] + j) * w + s for j in range(min(n[i], len(a["freq"])))])


@register
class C05Adaptive2D(Harness):
    prop = "C05"
    group = "adaptive2d"
    bounds_doc = "two adaptive fixed-width 2D histograms on one grid (width 1 on axis 0, 0.5 on axis 1), shapes 1x1 / 1x2 / 2x1 with symbolic integer offsets in [-2,2] per axis and symbolic contents; a+b and b+a: per-axis union of the ranges, every operand cell keeps its interval, nothing is lost, operands unchanged"

    W = (1.0, 0.5)

    def instances(self, tier):
        shapes = [((1, 1), (1, 1)), ((1, 2), (1, 1))] if tier == "quick" else [((1, 1), (1, 1)), ((1, 2), (1, 1)), ((2, 1), (1, 2)), ((1, 2), (2, 1))]
        for sa, sb in shapes:
            yield f"adapt2d-{sa[0]}x{sa[1]}-{sb[0]}x{sb[1]}", dict(shapes=[list(sa), list(sb)])

    def declare(self, cx, p):
        return {"t": [[cx.pyint(f"t{i}_{k}", -2, 2) for k in range(2)] for i in range(2)],
                "f": [declare_cells(cx, f"{'ab'[i]}f", p["shapes"][i], "int") for i in range(2)]}

    def _mk(self, E, p, x, i):
        np = E.np
        FWB = E.mod("physt.binnings").FixedWidthBinning
        H2 = E.mod("physt.histogram_nd").Histogram2D
        sh = p["shapes"][i]
        return H2([FWB(bin_width=self.W[k], bin_count=sh[k], bin_times_min=x["t"][i][k], adaptive=True) for k in range(2)], np.asarray(nested(x["f"][i], sh), dtype=int))

    def drive(self, E, p, x):
        a, b = self._mk(E, p, x, 0), self._mk(E, p, x, 1)
        obs = {}
        for key, fn in (("r1", lambda: a + b), ("r2", lambda: b + a)):
            r = E.attempt(fn)
            obs[key] = {"raised": r} if isinstance(r, Raised) else snapnd(E, r)
        obs["after"] = [snapnd(E, a), snapnd(E, b)]
        return obs

    def oracle(self, cx, p, x, obs):
        sh = p["shapes"]
        t = [[cx.t(v) for v in x["t"][i]] for i in range(2)]
        F = [{idx: cx.t(v) for idx, v in zip(product_indices(sh[i]), x["f"][i])} for i in range(2)]
        for key in ("r1", "r2"):
            r = obs[key]
            yield f"{key}_no_exception", "raised" not in r
            if "raised" in r:
                continue
            shape = [len(b) for b in r["bins"]]
            conj = []
            lo = [z3.If(t[0][k] < t[1][k], t[0][k], t[1][k]) for k in range(2)]
            hi = [z3.If(t[0][k] + sh[0][k] > t[1][k] + sh[1][k], t[0][k] + sh[0][k], t[1][k] + sh[1][k]) for k in range(2)]
            for k in range(2):
                conj.append(hi[k] - lo[k] == shape[k])
                for j in range(shape[k]):
                    conj.append(z3.And(cx.t(r["bins"][k][j][0]) == (lo[k] + j) * self.W[k], cx.t(r["bins"][k][j][1]) == (lo[k] + j + 1) * self.W[k]))
            yield f"{key}_union_grid", z3.And(conj)
            for idx in product_indices(shape):
                g = [lo[k] + idx[k] for k in range(2)]
                ref = zsum(z3.If(z3.And([g[k] - t[i][k] == cell[k] for k in range(2)]), F[i][cell], 0) for i in range(2) for cell in F[i])
                yield f"{key}_content[{idx[0]},{idx[1]}]", cx.eq(getcell(r["freq"], idx), ref)
            yield f"{key}_total", cx.eq(r["total"], zsum(v for i in range(2) for v in F[i].values()))
        for i in range(2):
            a = obs["after"][i]
            ok = [len(b) for b in a["bins"]] == sh[i]
            yield f"operand_unchanged[{i}]", z3.And([z3.BoolVal(ok)] + ([cx.eq(getcell(a["freq"], idx), F[i][idx]) for idx in F[i]] + [cx.t(a["bins"][k][0][0]) == t[i][k] * self.W[k] for k in range(2)] if ok else []))


def _exact(v):
    """A binary64 constant as the exact rational z3 value (z3 would read the decimal repr otherwise)."""
    from fractions import Fraction

    fr = Fraction(v)
    return z3.Q(fr.numerator, fr.denominator)


@register
class C05GridMismatch(Harness):
    prop = "C05"
    group = "gridmismatch"
    bounds_doc = "two adaptive fixed-width 1D histograms on DIFFERENT grids (widths 1 vs 2, or shifts 0 vs 0.5), bin counts 0..2 each incl. an empty left / right operand, symbolic offsets and contents; a+b, b+a, sum([a, b]): refused, or - if a result is returned - every operand bin is a bin of the result with its content (nothing lands on other edges)"

    def instances(self, tier):
        for kind in ("width", "shift"):
            for n1, n2 in itertools.product((0, 1, 2), (0, 1, 2)):
                if n1 == 0 and n2 == 0:
                    continue
                if tier == "quick" and n1 and n2 and (n1, n2) not in ((1, 2), (1, 1), (2, 2)):
                    continue
                yield f"grid-{kind}-{n1}-{n2}", dict(kind=kind, n=[n1, n2])
        # widths that differ by 3.8e-6 relative (1 vs 1 + 2^-18) (inside the default tolerance of np.isclose, but a different grid all the same); different offsets
        for n1, n2 in ((1, 1), (2, 1), (1, 2)):
            yield f"grid-width_close-{n1}-{n2}", dict(kind="width_close", n=[n1, n2])

    def declare(self, cx, p):
        x = {"t": [cx.pyint(f"t{i}", -3, 3) for i in range(2)],
             "f": [declare_cells(cx, f"{'ab'[i]}f", [p["n"][i]], "int") for i in range(2)]}
        if cx.sym and p["kind"] == "width_close":
            cx.assume(cx.t(x["t"][0]) != cx.t(x["t"][1]))
        return x

    def _grid(self, p, i):
        if p["kind"] == "width":
            return (1.0, 0.0) if i == 0 else (2.0, 0.0)
        if p["kind"] == "width_close":
            return (1.0, 0.0) if i == 0 else (1.0 + 2.0 ** -18, 0.0)   # 1.0000038...: exact in binary64
        return (1.0, 0.0) if i == 0 else (1.0, 0.5)

    def _mk(self, E, p, x, i):
        np = E.np
        FWB = E.mod("physt.binnings").FixedWidthBinning
        H1 = E.mod("physt.histogram1d").Histogram1D
        n = p["n"][i]
        w, sh = self._grid(p, i)
        kw = dict(bin_width=w, bin_count=n, adaptive=True)
        if n:
            kw["bin_times_min"] = x["t"][i]
        if sh:
            kw["bin_shift"] = sh
        return H1(FWB(**kw), np.asarray(x["f"][i], dtype=int))

    def drive(self, E, p, x):
        a, b = self._mk(E, p, x, 0), self._mk(E, p, x, 1)
        obs = {}
        for key, fn in (("r1", lambda: a + b), ("r2", lambda: b + a), ("r3", lambda: sum([a, b]))):
            r = E.attempt(fn)
            obs[key] = {"raised": r} if isinstance(r, Raised) else snap1d(E, r)
        obs["after"] = [snap1d(E, a), snap1d(E, b)]
        return obs

    def oracle(self, cx, p, x, obs):
        n = p["n"]
        t = [z3.ToReal(cx.t(i)) for i in x["t"]]
        F = [[cx.t(v) for v in x["f"][i]] for i in range(2)]
        opbins = []
        for i in range(2):
            w, sh = (_exact(v) for v in self._grid(p, i))
            for j in range(n[i]):
                opbins.append(((t[i] + j) * w + sh, (t[i] + j + 1) * w + sh, F[i][j]))
        for key in ("r1", "r2", "r3"):
            r = obs[key]
            if "raised" in r:
                yield f"{key}_refusal_kind", r["raised"].name == "ValueError"
                continue
            B = [(cx.t(b[0]), cx.t(b[1])) for b in r["bins"]]
            conj = [cx.eq(r["total"], zsum([c for _, _, c in opbins] + [z3.IntVal(0)]))]
            for (l, rr, c) in opbins:
                conj.append(z3.Or([z3.And(bl == l, br == rr) for bl, br in B] + [z3.BoolVal(False)]))
            for k, (bl, br) in enumerate(B):
                conj.append(cx.eq(r["freq"][k], zsum([z3.If(z3.And(bl == l, br == rr), c, 0) for (l, rr, c) in opbins] + [z3.IntVal(0)])))
            yield f"{key}_refused_or_exact_union", z3.And(conj)
        for i in range(2):
            a = obs["after"][i]
            w, sh = (_exact(v) for v in self._grid(p, i))
            yield f"operand_unchanged[{i}]", z3.And([z3.BoolVal(len(a["freq"]) == n[i])] + [cx.eq(a["freq"][j], F[i][j]) for j in range(min(n[i], len(a["freq"])))]
                                                   + [cx.t(a["bins"][j][0]) == (t[i] + j) * w + sh for j in range(min(n[i], len(a["freq"])))])


@register
class C05Refusals(Harness):
    prop = "C05"
    group = "refusals"
    bounds_doc = "a+b with different bins (non-adaptive), different bin counts, different ndim, non-histogram operands (scalar, list, array, None) with free arithmetics off: refused, operands unchanged"

    def instances(self, tier):
        for op in ("diff_edges", "diff_count", "diff_ndim", "scalar", "list", "array", "none", "iadd_array", "radd_array"):
            yield f"refuse-{op}", dict(op=op, M=2)
        # 2D operands whose bins differ along exactly one axis
        for ax in (0, 1):
            for way in ("add", "iadd", "sub"):
                yield f"refuse-nd-axis{ax}-{way}", dict(op="diff_nd", M=2, axis=ax, way=way)

    def declare(self, cx, p):
        M = p["M"]
        x = {"e": declare_edges(cx, "e", M), "e2": declare_edges(cx, "d", M), "a": _declare_h(cx, "a", M, "int"), "b": _declare_h(cx, "b", M, "int")}
        if cx.sym:
            # clearly different bins (outside allclose's tolerance)
            d = cx.t(x["e"][0]) - cx.t(x["e2"][0])
            m = z3.If(cx.t(x["e2"][0]) >= 0, cx.t(x["e2"][0]), -cx.t(x["e2"][0]))
            cx.assume(z3.Or(d > 1 + m / 1000, d < -1 - m / 1000))
        return x

    def drive(self, E, p, x):
        np = E.np
        op = p["op"]
        if op == "diff_nd":
            H2 = E.mod("physt.histogram_nd").Histogram2D
            e1, e2 = np.asarray(x["e"]), np.asarray(x["e2"])
            fa = np.asarray([[x["a"]["f"][0], x["a"]["f"][1]], [x["a"]["f"][1], x["a"]["f"][0]]], dtype=int)
            fb = np.asarray([[x["b"]["f"][0], x["b"]["f"][1]], [x["b"]["f"][1], x["b"]["f"][0]]], dtype=int)
            big = H2([e1, e1], fa + fb)     # contents >= the other's, so that subtraction could not be refused for going negative
            other = H2([e2, e1] if p["axis"] == 0 else [e1, e2], fb)

            def run2():
                if p["way"] == "add":
                    return big + other
                if p["way"] == "sub":
                    return big - other
                g = big
                g += other
                return g

            r = E.attempt(run2)
            return {"res": {"raised": r} if isinstance(r, Raised) else {"type": type(r).__name__}, "nd_after": snapnd(E, big), "nd_expected": (fa + fb).tolist(),
                    "nd_other_after": snapnd(E, other)["freq"], "nd_other_expected": fb.tolist()}
        a = _mk(E, x["e"], x["a"], "int")
        if op == "diff_edges":
            other = _mk(E, x["e2"], x["b"], "int")
        elif op == "diff_count":
            H1 = E.mod("physt.histogram1d").Histogram1D
            other = H1(np.asarray(list(x["e"]) + [x["e"][-1] + 1]), np.asarray(list(x["b"]["f"]) + [0], dtype=int))
        elif op == "diff_ndim":
            H2 = E.mod("physt.histogram_nd").Histogram2D
            other = H2([np.asarray(x["e"]), np.asarray(x["e"])], np.asarray([[0, 0], [0, 0]], dtype=int))
        elif op == "scalar":
            other = 3
        elif op == "list":
            other = [1, 2]
        elif op == "none":
            other = None
        else:
            other = np.asarray([1, 2])

        def run():
            if op == "iadd_array":
                g = a
                g += other
                return g
            if op == "radd_array":
                return [1, 2] + a
            return a + other

        r = E.attempt(run)
        obs = {"res": {"raised": r} if isinstance(r, Raised) else {"type": type(r).__name__}, "after": _full(E, a)}
        if hasattr(other, "frequencies") and other.ndim == 1:
            obs["other_after"] = snap1d(E, other)["freq"]
        return obs

    def oracle(self, cx, p, x, obs):
        r = obs["res"]
        expected = "ValueError" if p["op"].startswith("diff") else "TypeError"
        yield "refused", "raised" in r and r["raised"].name == expected
        if p["op"] == "diff_nd":
            flat = lambda a: [c for row in a for c in row]  # noqa: E731
            yield "operand_unchanged", z3.And([cx.eq(u, cx.t(v)) for u, v in zip(flat(obs["nd_after"]["freq"]), flat(obs["nd_expected"]))]
                                              + [cx.eq(u, cx.t(v)) for u, v in zip(flat(obs["nd_other_after"]), flat(obs["nd_other_expected"]))])
            return
        a = obs["after"]
        M = p["M"]
        yield "operand_unchanged", z3.And([cx.eq(a["freq"][j], cx.t(x["a"]["f"][j])) for j in range(M)] + [cx.eq(a["err2"][j], cx.t(x["a"]["q"][j])) for j in range(M)]
                                          + [cx.eq(a["under"], cx.t(x["a"]["u"])), cx.eq(a["stats"]["sum"], cx.t(x["a"]["s"][0])), z3.BoolVal(a["dtype"] == "int64")])


@register
class C05Data(Harness):
    prop = "C05"
    group = "data"
    stubs = ("dask replaced (symbolic world) by the graph protocol stub of C17 for the one `chunks-N2-dask` instance; every witness is replayed with the real dask",)
    bounds_doc = "h1(A)+h1(B) vs the reference over A and B together (|A|<=2, |B|=1, M=2 shared edges); chunk invariance: sum of adaptive fixed-width h1 over every split of N<=3 values into 2 chunks equals h1 of all values (values within +-2 widths)"

    def instances(self, tier):
        yield "data-A1-B1", dict(mode="fixed", nA=1, nB=1, M=2)
        yield "data-A2-B1", dict(mode="fixed", nA=2, nB=1, M=2)
        for N in ((2,) if tier == "quick" else (2, 3)):
            for cut in range(1, N):
                yield f"chunks-N{N}-cut{cut}", dict(mode="chunks", N=N, cut=cut)
        # the dask helper (chunked array, per-chunk histograms summed by dask's reduction; `adaptive` not passed by the caller)
        yield "chunks-N2-dask", dict(mode="chunks", N=2, cut=1, dask=True)

    def declare(self, cx, p):
        if p["mode"] == "fixed":
            return {"A": cx.reals("A", p["nA"]), "B": cx.reals("B", p["nB"]), "e": declare_edges(cx, "e", p["M"])}
        x = {"v": cx.reals("v", p["N"]), "w": cx.pyfloat("w")}
        if cx.sym:
            cx.assume(x["w"] > 0)
            cx.define("tiny_width", cx.t(x["w"]) <= z3.Q(1, 10**9))
            cx.assume(z3.Or(cx.t(x["w"]) <= z3.Q(1, 10**9), cx.t(x["w"]) >= z3.Q(1, 10**6)))
            for v in x["v"]:
                cx.assume(v >= -2 * x["w"], v < 2 * x["w"])
        return x

    def drive(self, E, p, x):
        np = E.np
        h1 = E.mod("physt._facade").h1
        if p["mode"] == "fixed":
            e = np.asarray(x["e"])
            a, b = h1(np.asarray(x["A"]), e), h1(np.asarray(x["B"]), e)
            r = a + b
            whole = h1(np.asarray(list(x["A"]) + list(x["B"])), e)
            return {"sum": _full(E, r), "whole": _full(E, whole)}
        v = list(x["v"])
        c = p["cut"]
        parts = [v[:c], v[c:]]
        if p.get("dask"):
            dask = E.mod("dask")
            E.mod("dask.array")
            cd = E.mod("physt.compat.dask")
            darr = dask.array.from_array(np.asarray(v, dtype=float), chunks=c)
            r = E.attempt(cd.h1, darr, "fixed_width", bin_width=x["w"])
        else:
            hs = [h1(np.asarray(pt, dtype=float), "fixed_width", bin_width=x["w"], adaptive=True) for pt in parts]
            r = E.attempt(lambda: sum(hs))
        whole = h1(np.asarray(v, dtype=float), "fixed_width", bin_width=x["w"], adaptive=True)
        obs = {"whole": snap1d(E, whole)}
        obs["sum"] = snap1d(E, r) if not isinstance(r, Raised) else {"raised": r}
        return obs

    def oracle(self, cx, p, x, obs):
        if p["mode"] == "fixed":
            M = p["M"]
            vals = [cx.t(v) for v in list(x["A"]) + list(x["B"])]
            e = [cx.t(t) for t in x["e"]]
            s, wh = obs["sum"], obs["whole"]
            for j in range(M):
                ref = zsum(z3.If(in_bin(v, e[j], e[j + 1], j == M - 1), 1, 0) for v in vals)
                yield f"content[{j}]", z3.And(cx.eq(s["freq"][j], ref), cx.eq(wh["freq"][j], ref))
                yield f"err2[{j}]", z3.And(cx.eq(s["err2"][j], ref), cx.eq(wh["err2"][j], ref))
            yield "underflow", z3.And(cx.eq(s["under"], zsum(z3.If(v < e[0], 1, 0) for v in vals)), cx.eq(s["under"], cx.t(wh["under"])))
            yield "overflow", z3.And(cx.eq(s["over"], zsum(z3.If(v > e[-1], 1, 0) for v in vals)), cx.eq(s["over"], cx.t(wh["over"])))
            yield "stats_sum", z3.And(cx.eq(s["stats"]["sum"], cx.t(wh["stats"]["sum"])), cx.eq(s["stats"]["weight"], cx.t(wh["stats"]["weight"])),
                                      cx.eq(s["stats"]["sum2"], cx.t(wh["stats"]["sum2"])), cx.eq(s["stats"]["min"], cx.t(wh["stats"]["min"])))
            return
        yield "construction_no_exception", obs.get("raised") is None
        if obs.get("raised") is not None:
            return
        s, wh = obs["sum"], obs["whole"]
        yield "no_exception", "raised" not in s
        if "raised" in s:
            return
        yield "same_shape", len(s["freq"]) == len(wh["freq"])
        if len(s["freq"]) != len(wh["freq"]):
            return
        for k in range(len(wh["freq"])):
            yield f"same_bins[{k}]", z3.And(cx.t(s["bins"][k][0]) == cx.t(wh["bins"][k][0]), cx.t(s["bins"][k][1]) == cx.t(wh["bins"][k][1]))
            yield f"same_content[{k}]", cx.eq(s["freq"][k], cx.t(wh["freq"][k]))
            yield f"same_err2[{k}]", cx.eq(s["err2"][k], cx.t(wh["err2"][k]))
        yield "total", cx.eq(s["total"], z3.IntVal(p["N"]))
