"""C04 - adaptive fixed-width histograms never lose a value when bins grow (R-mode inductive step)."""
from __future__ import annotations

import itertools

import z3

from symx.api import Harness, Raised, register

from .common import declare_cells, nested, product_indices, getcell, snap1d, snapnd, zsum


def _floor_div(cx_t_num, w):
    return z3.ToInt(cx_t_num / w)


@register
class C04Step1D(Harness):
    prop = "C04"
    group = "step1d"
    bounds_doc = ("inductive step: adaptive fixed-width Histogram1D in an arbitrary grid state (times_min symbolic in [-3,3], bin_count 0..3, width w > 0 symbolic, "
                  "shift symbolic in [0, w) or 0, symbolic contents/errors2) + one fill(v, weight) or fill_n of 1..3 values lying within 4 widths of the current range")
    assumptions_doc = ("C04 R-mode: grid arithmetic in exact reals; the binary64 rounding of floor((v - shift) / width) is covered separately by the FP kernel group",)

    def instances(self, tier):
        if tier == "quick":
            combos = [(0, "fill", False), (0, "filln2_w", False), (0, "filln0", False), (2, "fill", False), (2, "fill_w", True), (2, "filln2_w", False), (1, "filln2", True),
                      (2, "filln0", False), (1, "filln1", False)]
        else:
            combos = [(n, c, s) for n in (0, 1, 2, 3) for c in ("fill", "fill_w", "filln1", "filln2", "filln2_w", "filln0", "filln3") for s in (False, True) if not (c == "filln3" and n > 1)]
        for n, call, shift in combos:
            yield f"a1d-n{n}-{call}-s{int(shift)}", dict(n=n, call=call, shift=shift, reach=3 if tier == "quick" else 4)
        # started empty with align=False: the first value defines the shift
        for call in ("fill", "filln2"):
            yield f"a1d-empty-noalign-{call}", dict(n=0, call=call, shift=False, noalign=True, reach=3)
        # the histogram is looked at (bins, find_bin, edges) before it is filled: cached representations must not go stale
        for n, call in ((0, "fill"), (0, "filln2"), (2, "fill"), (1, "filln2_w")):
            yield f"a1d-n{n}-{call}-inspected", dict(n=n, call=call, shift=False, reach=3, inspect=True)

    def declare(self, cx, p):
        n = p["n"]
        k = {"fill": 1, "fill_w": 1, "filln0": 0, "filln1": 1, "filln2": 2, "filln2_w": 2, "filln3": 3}[p["call"]]
        x = {"w": cx.pyfloat("w"), "t": cx.pyint("t", -3, 3), "f": declare_cells(cx, "f", [n], "int"), "q": declare_cells(cx, "q", [n], "int"), "v": cx.reals("v", k),
             "wt": [cx.pyint(f"wt{i}", 0, 3) for i in range(k)]}
        if p["shift"]:
            x["s"] = cx.pyfloat("s")
        if cx.sym:
            cx.assume(x["w"] > 0)
            w, t = cx.t(x["w"]), cx.t(x["t"])
            s = cx.t(x["s"]) if p["shift"] else z3.RealVal(0)
            if p["shift"]:
                cx.assume(s >= 0, s < w)
            R = p.get("reach", 4)
            lo = (t - R) * w + s if n else -R * w
            hi = (t + n + R) * w + s if n else R * w
            cx.assume(*[z3.And(cx.t(v) >= lo, cx.t(v) < hi) for v in x["v"]])
            cx.define("on_grid", z3.Or([z3.ToReal(z3.ToInt((cx.t(v) - s) / w)) * w + s == cx.t(v) for v in x["v"]] or [z3.BoolVal(False)]))
        return x

    def witness_hints(self, cx, p, x):
        # dyadic width / shift and values on an eighth of the width: exact-real and binary64 grid arithmetic coincide there
        w = cx.t(x["w"])
        vals = [cx.t(v) for v in x["v"]]
        out = []
        for wv in (1, z3.Q(1, 2), 2):
            h = [w == wv] + [z3.ToReal(z3.ToInt(v * 8)) == v * 8 for v in vals]
            if p["shift"]:
                h.append(z3.Or(cx.t(x["s"]) == 0, cx.t(x["s"]) == wv / 4))
            out.append(h)
        return out

    def drive(self, E, p, x):
        np = E.np
        H1 = E.mod("physt.histogram1d").Histogram1D
        FWB = E.mod("physt.binnings").FixedWidthBinning
        n = p["n"]
        kw = dict(bin_width=x["w"], bin_count=n, adaptive=True)
        if n:
            kw["bin_times_min"] = x["t"]
        if p["shift"]:
            kw["bin_shift"] = x["s"]
        if p.get("noalign"):
            kw["align"] = False
        b = FWB(**kw)
        h = H1(b, np.asarray(x["f"], dtype=int), np.asarray(x["q"], dtype=int)) if n else H1(b)
        call = p["call"]
        obs = {"ret": None}
        if p.get("inspect"):
            _ = (h.bins, h.numpy_bins, h.bin_left_edges, h.binning.bin_count, h.total)
            if len(x["v"]):
                E.attempt(h.find_bin, x["v"][0])
        if call == "fill":
            r = E.attempt(h.fill, x["v"][0])
            obs["ret"] = r
        elif call == "fill_w":
            r = E.attempt(h.fill, x["v"][0], x["wt"][0])
            obs["ret"] = r
        else:
            vals = np.asarray(list(x["v"]), dtype=float)
            if call.endswith("_w"):
                r = E.attempt(h.fill_n, vals, weights=np.asarray(list(x["wt"]), dtype=int))
            else:
                r = E.attempt(h.fill_n, vals)
        if isinstance(r, Raised):
            obs["raised"] = r
            return obs
        obs["final"] = snap1d(E, h)
        obs["grid"] = {"times_min": h.binning._times_min, "bin_count": h.binning._bin_count, "shift": h.binning._shift, "width": h.binning._bin_width,
                       "first_edge": h.binning.first_edge if h.binning.bin_count else None, "last_edge": h.binning.last_edge if h.binning.bin_count else None,
                       "adaptive": h.binning.is_adaptive()}
        obs["find"] = [E.attempt(h.find_bin, v) for v in x["v"]]
        # the same data over the final bins, fixed (second real execution path)
        return obs

    def oracle(self, cx, p, x, obs):
        n, call = p["n"], p["call"]
        yield "no_exception", obs.get("raised") is None
        if obs.get("raised") is not None:
            return
        w, t = cx.t(x["w"]), cx.t(x["t"])
        v = [cx.t(i) for i in x["v"]]
        wt = [cx.t(i) for i in x["wt"]] if call in ("fill_w", "filln2_w") else [z3.IntVal(1)] * len(v)
        f, q = [cx.t(i) for i in x["f"]], [cx.t(i) for i in x["q"]]
        fin, grid = obs["final"], obs["grid"]
        M = len(fin["freq"])
        if p.get("noalign") and v:
            # the shift is defined by the first value entered: the value sits exactly on a grid line
            s = cx.t(grid["shift"])
            yield "noalign_shift_in_range", z3.And(s >= 0 - w, s <= w)
        else:
            s = cx.t(x["s"]) if p["shift"] else z3.RealVal(0)
            yield "shift_kept", cx.eq(grid["shift"], s)
        yield "width_kept", cx.eq(grid["width"], w)
        yield "still_adaptive", grid["adaptive"] is True
        if not v and n == 0:
            yield "still_empty", M == 0
            return
        tm = cx.t(grid["times_min"])
        yield "bin_count_consistent", z3.And(cx.eq(grid["bin_count"], z3.IntVal(M)), z3.BoolVal(len(fin["err2"]) == M and len(fin["bins"]) == M))
        if len(fin["err2"]) != M or len(fin["bins"]) != M:
            return
        # grid invariant: every edge = origin + k * width
        for k in range(M):
            yield f"edge_on_grid[{k}]", z3.And(cx.t(fin["bins"][k][0]) == (tm + k) * w + s, cx.t(fin["bins"][k][1]) == (tm + k + 1) * w + s)
        yield "first_last_edge", z3.And(cx.eq(grid["first_edge"], tm * w + s), cx.eq(grid["last_edge"], (tm + M) * w + s))
        # every value lies inside a bin; find_bin / fill report that bin
        gidx = [z3.ToInt((vi - s) / w) for vi in v]
        for i, vi in enumerate(v):
            yield f"value_inside[{i}]", z3.And(tm * w + s <= vi, vi < (tm + M) * w + s)
            fb = obs["find"][i]
            yield f"find_bin[{i}]", (not isinstance(fb, Raised)) and fb is not None and cx.eq(fb, gidx[i] - tm)
        if call in ("fill", "fill_w"):
            yield "fill_returns_bin", obs["ret"] is not None and not isinstance(obs["ret"], Raised) and cx.eq(obs["ret"], gidx[0] - tm)
        # exact span: from the lowest to the highest bin ever needed
        if not p.get("noalign"):
            lows = ([t] if n else []) + gidx
            highs = ([t + n] if n else []) + [g + 1 for g in gidx]
            lo = lows[0]
            for a in lows[1:]:
                lo = z3.If(a < lo, a, lo)
            hi = highs[0]
            for a in highs[1:]:
                hi = z3.If(a > hi, a, hi)
            yield "span_exact", z3.And(tm == lo, tm + M == hi)
        # contents: old content stays attached to its interval, new values land in their bins = fixed-bin histogram of all data
        for k in range(M):
            g = tm + k
            old = zsum(z3.If(g - t == j, f[j], 0) for j in range(n))
            old2 = zsum(z3.If(g - t == j, q[j], 0) for j in range(n))
            new = zsum(z3.If(gidx[i] == g, wt[i], 0) for i in range(len(v)))
            new2 = zsum(z3.If(gidx[i] == g, wt[i] * wt[i], 0) for i in range(len(v)))
            yield f"content[{k}]", cx.eq(fin["freq"][k], old + new)
            yield f"err2[{k}]", cx.eq(fin["err2"][k], old2 + new2)
        yield "total", cx.eq(fin["total"], zsum(f) + zsum(wt))
        yield "nothing_missed", z3.And(cx.eq(fin["under"], 0), cx.eq(fin["over"], 0), cx.eq(fin["inner"], 0))


@register
class C04StepND(Harness):
    prop = "C04"
    group = "stepnd"
    bounds_doc = "inductive step in 2D (and 3D in thorough): adaptive fixed-width axes (symbolic width per axis, offsets in [-2,2], 1..2 bins per axis), one fill(point) or fill_n(1 point) within 3 widths of the range, fill_n(2 points) within 1 width"

    def instances(self, tier):
        shapes = [(1, 2)] if tier == "quick" else [(1, 2), (2, 1), (2, 2), (1, 1, 2)]
        for shape in shapes:
            for call in ("fill", "filln1", "filln2"):
                if (len(shape) == 3 or tier == "quick") and call == "filln2":
                    continue
                # two-point batches in ND: values within 1 width of the range (3 for single points) - the path count is (bins + 2*reach)^(2*D)
                yield f"and-S{'x'.join(map(str, shape))}-{call}", dict(shape=list(shape), call=call, reach=2 if tier == "quick" else (1 if call == "filln2" else 3))
        yield "and-empty-fill", dict(shape=[0, 0], call="fill", reach=2)
        # empty batches (no rows, or only rows that dropna removes), on a histogram that has no bins yet and on one that has
        for call in ("filln0", "fillnnan"):
            yield f"and-empty-{call}", dict(shape=[0, 0], call=call, reach=2)
            yield f"and-S1x2-{call}", dict(shape=[1, 2], call=call, reach=2)
        if tier != "quick":
            yield "and-empty3d-filln0", dict(shape=[0, 0, 0], call="filln0", reach=2)
        if tier != "quick":
            yield "and-empty-filln2", dict(shape=[0, 0], call="filln2", reach=2)

    def declare(self, cx, p):
        shape = p["shape"]
        D = len(shape)
        k = {"fill": 1, "filln1": 1, "filln2": 2, "filln0": 0, "fillnnan": 0}[p["call"]]
        x = {"w": [cx.pyfloat(f"w{a}") for a in range(D)], "t": [cx.pyint(f"t{a}", -2, 2) for a in range(D)], "f": declare_cells(cx, "f", shape, "int"),
             "x": [[cx.real(f"x{i}_{a}") for a in range(D)] for i in range(k)]}
        if cx.sym:
            for a in range(D):
                w, t = cx.t(x["w"][a]), cx.t(x["t"][a])
                cx.assume(w > 0)
                R = p.get("reach", 3)
                lo = (t - R) * w if shape[a] else -R * w
                hi = (t + shape[a] + R) * w if shape[a] else R * w
                cx.assume(*[z3.And(cx.t(row[a]) >= lo, cx.t(row[a]) < hi) for row in x["x"]])
        return x

    def witness_hints(self, cx, p, x):
        out = []
        for wv in (1, z3.Q(1, 2)):
            h = [cx.t(w) == wv for w in x["w"]] + [z3.ToReal(z3.ToInt(cx.t(c) * 8)) == cx.t(c) * 8 for row in x["x"] for c in row]
            out.append(h)
        return out

    def drive(self, E, p, x):
        np = E.np
        nd = E.mod("physt.histogram_nd")
        FWB = E.mod("physt.binnings").FixedWidthBinning
        shape = p["shape"]
        D = len(shape)
        bins = []
        for a in range(D):
            kw = dict(bin_width=x["w"][a], bin_count=shape[a], adaptive=True)
            if shape[a]:
                kw["bin_times_min"] = x["t"][a]
            bins.append(FWB(**kw))
        cls = nd.Histogram2D if D == 2 else nd.HistogramND
        if all(shape):
            h = cls(bins, np.asarray(nested(x["f"], shape), dtype=int))
        else:
            h = cls(bins)
        if p["call"] == "fill":
            r = E.attempt(h.fill, list(x["x"][0]))
        elif p["call"] == "fillnnan":
            r = E.attempt(h.fill_n, np.asarray([[np.nan] * D, [np.nan] + [0.0] * (D - 1)], dtype=float))
        else:
            r = E.attempt(h.fill_n, np.asarray(x["x"], dtype=float).reshape((len(x["x"]), D)))
        obs = {"ret": r if p["call"] == "fill" else None}
        if isinstance(r, Raised):
            obs["raised"] = r
            return obs
        obs["final"] = snapnd(E, h)
        obs["grid"] = [{"times_min": b._times_min, "bin_count": b._bin_count} for b in h.binnings]
        obs["find"] = [E.attempt(h.find_bin, list(row)) for row in x["x"]]
        return obs

    def oracle(self, cx, p, x, obs):
        shape = p["shape"]
        D = len(shape)
        yield "no_exception", obs.get("raised") is None
        if obs.get("raised") is not None:
            return
        fin = obs["final"]
        w = [cx.t(i) for i in x["w"]]
        t = [cx.t(i) for i in x["t"]]
        rows = [[cx.t(c) for c in row] for row in x["x"]]
        nshape = [len(b) for b in fin["bins"]]
        tm = [cx.t(g["times_min"]) if g["times_min"] is not None else z3.IntVal(0) for g in obs["grid"]]  # None: the axis has no bins yet
        gidx = [[z3.ToInt(row[a] / w[a]) for a in range(D)] for row in rows]
        for a in range(D):
            yield f"bin_count[{a}]", cx.eq(obs["grid"][a]["bin_count"], z3.IntVal(nshape[a]))
            for k in range(nshape[a]):
                yield f"edge_on_grid[{a}][{k}]", z3.And(cx.t(fin["bins"][a][k][0]) == (tm[a] + k) * w[a], cx.t(fin["bins"][a][k][1]) == (tm[a] + k + 1) * w[a])
            lows = ([t[a]] if shape[a] else []) + [g[a] for g in gidx]
            highs = ([t[a] + shape[a]] if shape[a] else []) + [g[a] + 1 for g in gidx]
            if not lows:
                yield f"still_no_bins[{a}]", nshape[a] == 0
                continue
            lo, hi = lows[0], highs[0]
            for v in lows[1:]:
                lo = z3.If(v < lo, v, lo)
            for v in highs[1:]:
                hi = z3.If(v > hi, v, hi)
            yield f"span_exact[{a}]", z3.And(tm[a] == lo, tm[a] + nshape[a] == hi)
        for i, row in enumerate(rows):
            fb = obs["find"][i]
            ok = fb is not None and not isinstance(fb, Raised)
            yield f"find_bin[{i}]", z3.And([cx.eq(fb[a], gidx[i][a] - tm[a]) for a in range(D)]) if ok else False
        if p["call"] == "fill":
            r = obs["ret"]
            yield "fill_returns_bin", z3.And([cx.eq(r[a], gidx[0][a] - tm[a]) for a in range(D)]) if (r is not None and not isinstance(r, Raised)) else False
        old_idx = product_indices(shape) if all(shape) else []
        f = {idx: cx.t(vv) for idx, vv in zip(old_idx, x["f"])}
        for nidx in product_indices(nshape):
            g = [tm[a] + nidx[a] for a in range(D)]
            old = zsum(z3.If(z3.And([g[a] - t[a] == idx[a] for a in range(D)]), f[idx], 0) for idx in old_idx)
            new = zsum(z3.If(z3.And([gidx[i][a] == g[a] for a in range(D)]), 1, 0) for i in range(len(rows)))
            yield f"content[{','.join(map(str, nidx))}]", cx.eq(getcell(fin["freq"], nidx), old + new)
        yield "total", cx.eq(fin["total"], zsum(f.values()) + len(rows))
        yield "nothing_missed", cx.eq(fin["missed"], 0)


@register
class C04FPKernel(Harness):
    prop = "C04"
    group = "fpkernel"
    bounds_doc = ("binary64 (IEEE, round-to-nearest-even) execution of the real FixedWidthBinning._force_bin_existence_single / numpy_bins / "
                  "Histogram1D.fill / find_bin: one value v (symbolic binary64, |v| <= reach * width) filled into an empty or a 1-bin adaptive histogram "
                  "with a CONSTANT width from a fixed list; obligation: the value is inside a bin (fill returns an index in [0, bin_count), total == 1, no under/overflow)")
    assumptions_doc = ("C04 FP kernel: widths are the listed constants, |v| <= reach*width (reach 8 quick / 30 thorough, 25 for the widths that are not exact in binary64), v finite and normal; "
                       "symbolic widths and larger magnitudes are outside (QF_FP does not finish there)",)

    WIDTHS_QUICK = [0.5, 1.0, 0.25]
    WIDTHS_THOROUGH = [0.5, 1.0, 0.25, 2.5, 10.0, 0.1, 0.2, 0.3, 1e-3]

    def instances(self, tier):
        for w in (self.WIDTHS_QUICK if tier == "quick" else self.WIDTHS_THOROUGH):
            # widths that are not exact in binary64 (0.1, 0.2, 0.3, 1e-3) make every QF_FP query slower: a shorter reach keeps the
            # verdict stable when the machine is loaded (they are the widths that lose values anyway - recorded findings)
            yield f"fp-w{w}-empty", dict(w=w, start="empty", reach=8 if tier == "quick" else (30 if w in (0.5, 1.0, 0.25, 2.5, 10.0) else 25))
            if tier != "quick" and w in (0.5, 1.0, 0.25, 2.5, 10.0):
                # from a one-bin state the kernel forks over the number of bins added: minutes of QF_FP time per width
                # (the widths that already lose values from the empty state are not repeated here)
                yield f"fp-w{w}-one", dict(w=w, start="one", reach=4)

    def declare(self, cx, p):
        return {"v": cx.fp("v", -p["reach"] * p["w"], p["reach"] * p["w"])}

    def drive(self, E, p, x):
        np = E.np
        H1 = E.mod("physt.histogram1d").Histogram1D
        FWB = E.mod("physt.binnings").FixedWidthBinning
        if p["start"] == "empty":
            h = H1(FWB(bin_width=p["w"], bin_count=0, adaptive=True))
        else:
            h = H1(FWB(bin_width=p["w"], bin_count=1, bin_times_min=0, adaptive=True), np.asarray([0]))
        r = E.attempt(h.fill, x["v"])
        if isinstance(r, Raised):
            return {"raised": r}
        n = h.bin_count
        return {"ret": r, "bin_count": int(n), "total": h.total, "under": h.underflow, "over": h.overflow,
                "first": h.binning.first_edge, "last": h.binning.last_edge}

    def oracle(self, cx, p, x, obs):
        yield "no_exception", obs.get("raised") is None
        if obs.get("raised") is not None:
            return
        r, n = obs["ret"], obs["bin_count"]
        yield "value_inside_a_bin", r is not None and isinstance(r, int) and 0 <= r < n
        yield "total_is_one", obs["total"] == 1
        yield "nothing_missed", obs["under"] == 0 and obs["over"] == 0



@register
class C04Derived(Harness):
    prop = "C04"
    group = "derived"
    stubs = ("log10 / ln as uninterpreted functions with order-preserving axioms (pretty widths)",)
    bounds_doc = "non-adaptive fixed_width (width 0.5), integer and pretty (bin_count 4) binnings derived from N=2 symbolic data values, through h1 and h2 (same column on both axes): every value lies inside a bin - total = N, underflow = overflow = 0 (1D) / missed = 0 (2D)"

    def instances(self, tier):
        for method in ("fixed_width", "integer", "pretty"):
            for dim in (1, 2):
                yield f"derived-{method}-{dim}d", dict(method=method, dim=dim)
        # the option includes_right_edge=True: the last bin is closed, a data maximum on the grid is still inside it
        for method in ("fixed_width", "integer"):
            yield f"derived-{method}-2d-rightedge", dict(method=method, dim=2, right=True)

    def declare(self, cx, p):
        x = {"v": cx.reals("v", 2)}
        if cx.sym:
            v = [cx.t(i) for i in x["v"]]
            if p["method"] == "pretty":
                from .c07 import _no_ties

                cx.assume(v[0] >= -20, v[1] <= 20, v[1] - v[0] >= 2, v[1] - v[0] <= 16)
                _no_ties(cx, (v[1] - v[0]) / 4)
            else:
                cx.assume(*[z3.And(t >= -4, t <= 4) for t in v])
        return x

    def witness_hints(self, cx, p, x):
        return [[z3.ToReal(z3.ToInt(cx.t(v) * 4)) == cx.t(v) * 4 for v in x["v"]]]

    def drive(self, E, p, x):
        np = E.np
        fac = E.mod("physt._facade")
        data = np.asarray(list(x["v"]), dtype=float)
        kw = {"fixed_width": dict(bin_width=0.5), "integer": {}, "pretty": dict(bin_count=4)}[p["method"]]
        if p.get("right"):
            kw["includes_right_edge"] = True
        if p["dim"] == 1:
            h = E.attempt(fac.h1, data, p["method"], **kw)
            if isinstance(h, Raised):
                return {"op_raised": h}
            return {"total": h.total, "under": h.underflow, "over": h.overflow, "bins": h.bins.tolist(), "adaptive": h.is_adaptive()}
        h = E.attempt(fac.h2, data, data, p["method"], **kw)
        if isinstance(h, Raised):
            return {"op_raised": h}
        return {"total": h.total, "missed": h.missed, "bins": h.bins[0].tolist(), "bins1": h.bins[1].tolist(), "adaptive": h.is_adaptive()}

    def oracle(self, cx, p, x, obs):
        yield "no_exception", obs.get("raised") is None and obs.get("op_raised") is None
        if obs.get("raised") is not None or obs.get("op_raised") is not None:
            return
        v = [cx.t(i) for i in x["v"]]
        yield "all_values_counted", cx.eq(obs["total"], z3.IntVal(2))
        if p["dim"] == 1:
            yield "nothing_outside", z3.And(cx.eq(obs["under"], 0), cx.eq(obs["over"], 0))
        else:
            yield "nothing_missed", cx.eq(obs["missed"], 0)
        for key in ("bins", "bins1"):
            if key not in obs:
                continue
            B = obs[key]
            yield f"has_bins[{key}]", len(B) > 0
            if not B:
                continue
            first, last = cx.t(B[0][0]), cx.t(B[-1][1])
            closed = p["dim"] == 1 or bool(p.get("right"))   # 1D histograms close their last bin; ND axes of fixed-width binnings only with includes_right_edge=True
            yield f"range_covers_data[{key}]", z3.And([z3.And(first <= t, (t <= last) if closed else (t < last)) for t in v])
            yield f"contiguous_equal_width[{key}]", z3.And([cx.t(B[j][1]) == cx.t(B[j + 1][0]) for j in range(len(B) - 1)] + [cx.t(b[1]) - cx.t(b[0]) == cx.t(B[0][1]) - cx.t(B[0][0]) for b in B])
        yield "not_adaptive", obs["adaptive"] is False
