"""C11 - indexing and slicing follow numpy semantics on the bin grid."""
from __future__ import annotations

import itertools

import z3

from symx.api import Harness, Raised, register

from .common import declare_cells, declare_edges, getcell, nested, product_indices, snap1d, snapnd, zsum


def _snap_any(E, r):
    if isinstance(r, Raised):
        return {"raised": r}
    if isinstance(r, tuple):
        b, f = r
        return {"tuple": [b.tolist() if hasattr(b, "tolist") else [list(i) for i in b], f]}
    d = snap1d(E, r) if r.ndim == 1 else snapnd(E, r)
    d["cls"] = type(r).__name__
    d["name"] = r.name
    d["axis_names"] = list(r.axis_names)
    d["ndim"] = r.ndim
    d["right_flags"] = [bool(b.includes_right_edge) for b in r._binnings]
    # derived geometry (lazily cached in the binning objects): numpy-style edges per axis, may be refused for gapped selections
    if r.ndim == 1:
        d["edges"] = _lst(E.attempt(lambda: r.edges))
        d["widths"] = _lst(E.attempt(lambda: r.bin_widths))
    else:
        d["edges"] = [_lst(E.attempt(lambda b=b: b.numpy_bins)) for b in r._binnings]
    return d


def _lst(v):
    return v if isinstance(v, Raised) else v.tolist()


def _touch(h):
    """Read every lazily computed geometry attribute of the source (fills the binning caches)."""
    if h.ndim == 1:
        return [h.edges.tolist(), h.bin_widths.tolist(), h.bin_centers.tolist(), h.bins.tolist()]
    return [[b.numpy_bins.tolist(), b.bins.tolist()] for b in h._binnings]


def _pairs(np, e):
    return np.asarray([[e[j], e[j + 1]] for j in range(len(e) - 1)])


def geom_consistent(cx, bins, edges, label):
    """edges (if available) are the bins' edges: edges[0] == bins[0][0], edges[t+1] == bins[t][1]
    (left edges of later bins only agree up to the is_consecutive tolerance, so they are not compared exactly)."""
    if isinstance(edges, Raised) or not bins:
        return
    yield f"{label}_count", len(edges) == len(bins) + 1
    if len(edges) == len(bins) + 1:
        yield label, z3.And([cx.t(edges[0]) == cx.t(bins[0][0])] + [cx.t(edges[t + 1]) == cx.t(bins[t][1]) for t in range(len(bins))])


@register
class C11Index1D(Harness):
    prop = "C11"
    group = "index1d"
    bounds_doc = "1D histogram with M=3 bins, symbolic contents/errors2/edges/underflow/overflow; index = symbolic int in [-M-1, M], slice(a, b, s) with a, b in {None} or symbolic in [-M-1, M+1] and s in {None, 1, 2, -1}, boolean masks with symbolic entries (right and wrong size), index arrays of length <= 2 with symbolic entries"

    def instances(self, tier):
        M = 3
        yield "int", dict(M=M, kind="int")
        for a, b in itertools.product(("none", "sym"), ("none", "sym")):
            for step in (None, 1, 2, -1):
                if tier == "quick" and step in (2, -1) and (a, b) != ("sym", "sym"):
                    continue
                yield f"slice-{a}-{b}-s{step}", dict(M=M, kind="slice", a=a, b=b, step=step)
        yield "mask", dict(M=M, kind="mask", size=M)
        yield "mask-short", dict(M=M, kind="mask", size=M - 1)
        yield "mask-long", dict(M=M, kind="mask", size=M + 1)
        yield "array1", dict(M=M, kind="array", n=1)
        yield "array2", dict(M=M, kind="array", n=2)
        if tier != "quick":
            yield "array3", dict(M=M, kind="array", n=3)
            yield "int-M2", dict(M=2, kind="int")
            yield "slice-M4", dict(M=4, kind="slice", a="sym", b="sym", step=None)
        # source built from explicit (M, 2) bin pairs (StaticBinning) whose derived geometry was read before indexing
        yield "slice-static-touched", dict(M=M, kind="slice", a="sym", b="sym", step=None, static=True, touch=True)
        yield "mask-static-touched", dict(M=M, kind="mask", size=M, static=True, touch=True)
        yield "array2-static-touched", dict(M=M, kind="array", n=2, static=True, touch=True)
        yield "slice-touched", dict(M=M, kind="slice", a="sym", b="sym", step=None, touch=True)
        # source over a fixed-width binning (right edge excluded): the flag survives slicing / masking
        yield "slice-fixed", dict(M=M, kind="slice", a="sym", b="sym", step=None, fixed=True)
        yield "mask-fixed", dict(M=M, kind="mask", size=M, fixed=True)
        yield "select-all-forcecopy", dict(M=M, kind="select_all", force_copy=True)
        yield "select-axis1", dict(M=M, kind="select_bad_axis")
        yield "select-all", dict(M=M, kind="select_all")

    def declare(self, cx, p):
        M = p["M"]
        x = {"f": declare_cells(cx, "f", [M], "int"), "q": declare_cells(cx, "q", [M], "int"), "e": declare_edges(cx, "e", M) if not p.get("fixed") else [float(j) for j in range(M + 1)],
             "u": cx.int("u", 0), "o": cx.int("o", 0)}
        k = p["kind"]
        if k == "int":
            x["i"] = cx.pyint("i", -M - 1, M)
        elif k == "slice":
            if p["a"] == "sym":
                x["a"] = cx.pyint("a", -M - 1, M + 1)
            if p["b"] == "sym":
                x["b"] = cx.pyint("b", -M - 1, M + 1)
        elif k == "mask":
            x["m"] = [cx.bool(f"m{j}") for j in range(p["size"])]
        elif k == "array":
            x["ix"] = [cx.int(f"ix{j}", -M - 1, M) for j in range(p["n"])]
        return x

    def _index(self, E, p, x):
        np = E.np
        k = p["kind"]
        if k == "int":
            return x["i"]
        if k == "slice":
            return slice(x.get("a"), x.get("b"), p["step"])
        if k == "mask":
            return np.asarray(x["m"], dtype=bool)
        return np.asarray(x["ix"], dtype=int)

    def drive(self, E, p, x):
        np = E.np
        H1 = E.mod("physt.histogram1d").Histogram1D
        b = _pairs(np, x["e"]) if p.get("static") else np.asarray(x["e"])
        if p.get("fixed"):
            b = E.mod("physt.binnings").FixedWidthBinning(bin_width=1.0, bin_count=p["M"], bin_times_min=0)
        h = H1(b, np.asarray(x["f"], dtype=int), np.asarray(x["q"], dtype=int), underflow=x["u"], overflow=x["o"], name="n", axis_name="ax")
        if p.get("touch"):
            _touch(h)
        if p["kind"] == "select_bad_axis":
            r = E.attempt(h.select, 1, 0)
        elif p["kind"] == "select_all":
            r = E.attempt(h.select, 0, slice(None), force_copy=True) if p.get("force_copy") else E.attempt(h.select, 0, slice(None))
            return {"res": _snap_any(E, r), "same_object": r is h, "after": snap1d(E, h), "source_right_flag": bool(h.binning.includes_right_edge)}
        else:
            r = E.attempt(lambda: h[self._index(E, p, x)])
        shares = (not isinstance(r, (Raised, tuple))) and any(rb is sb for rb in r._binnings for sb in h._binnings)
        mem = (not isinstance(r, (Raised, tuple))) and (bool(np.shares_memory(r.frequencies, h.frequencies)) or bool(np.shares_memory(r.errors2, h.errors2)) or bool(np.shares_memory(r._missed, h._missed)))
        return {"res": _snap_any(E, r), "after": snap1d(E, h), "shares_binning": shares, "shares_memory": mem, "source_right_flag": bool(h.binning.includes_right_edge)}

    def oracle(self, cx, p, x, obs):
        M = p["M"]
        f, q = [cx.t(i) for i in x["f"]], [cx.t(i) for i in x["q"]]
        e = [cx.t(i) for i in x["e"]]
        u, o = cx.t(x["u"]), cx.t(x["o"])
        aft = obs["after"]
        yield "source_unchanged", z3.And([cx.eq(aft["freq"][j], f[j]) for j in range(M)] + [cx.eq(aft["err2"][j], q[j]) for j in range(M)]
                                         + [cx.eq(aft["under"], u), cx.eq(aft["over"], o)] + [cx.t(aft["bins"][j][0]) == e[j] for j in range(M)])
        res = obs["res"]
        k = p["kind"]
        bins = [(e[j], e[j + 1]) for j in range(M)]
        pos = list(range(M))
        if k == "select_bad_axis":
            yield "bad_axis_refused", "raised" in res
            return
        if k == "select_all":
            if p.get("force_copy"):
                yield "force_copy_gives_a_new_object", obs["same_object"] is False
            yield "identity_select", "raised" not in res and all(True for _ in [0])
            if "raised" not in res:
                yield "identity_contents", z3.And([cx.eq(res["freq"][j], f[j]) for j in range(M)])
            return
        if k == "int":
            i = cx.concrete_int(x["i"])
            if -M <= i < M:
                yield "int_no_exception", "tuple" in res
                if "tuple" in res:
                    j = i % M
                    yield "int_bin", z3.And(cx.t(res["tuple"][0][0]) == e[j], cx.t(res["tuple"][0][1]) == e[j + 1], cx.eq(res["tuple"][1], f[j]))
            else:
                yield "out_of_range_refused", "raised" in res and res["raised"].name == "IndexError"
            return
        if k == "slice":
            a = cx.concrete_int(x["a"]) if "a" in x else None
            b = cx.concrete_int(x["b"]) if "b" in x else None
            step = p["step"]
            sel = pos[slice(a, b, step)]
            if step == -1:
                yield "reversed_refused", "raised" in res
                return
            if "raised" in res:
                # an explicit positive step may be refused (the statement can be read both ways); step=None must work
                yield "slice_no_exception", step is not None
                return
            contiguous = step in (None, 1)
        elif k == "mask":
            if p["size"] != M:
                yield "wrong_mask_refused", "raised" in res and res["raised"].name in ("IndexError", "ValueError")
                return
            mask = [cx.concrete_bool(b) for b in x["m"]]
            sel = [j for j in pos if mask[j]]
            yield "mask_no_exception", "raised" not in res
            if "raised" in res:
                return
            contiguous = False
        else:
            ix = [cx.concrete_int(i) for i in x["ix"]]
            if any(not (-M <= i < M) for i in ix):
                yield "out_of_range_refused", "raised" in res and res["raised"].name == "IndexError"
                return
            sel = [i % M for i in ix]
            if sel != sorted(sel) or len(set(sel)) != len(sel):
                # unsorted / repeated index arrays: a refusal or a well-formed histogram over the selected bins in increasing order
                if "raised" in res:
                    return
                yield "unsorted_index_wellformed", z3.And([cx.t(res["bins"][t][1]) <= cx.t(res["bins"][t + 1][0]) for t in range(len(res["bins"]) - 1)])
                return
            yield "array_no_exception", "raised" not in res
            if "raised" in res:
                return
            contiguous = False
        # common: sub-histogram over `sel`
        yield "bin_count", len(res["freq"]) == len(sel)
        if len(res["freq"]) != len(sel):
            return
        for t, j in enumerate(sel):
            yield f"bins[{t}]", z3.And(cx.t(res["bins"][t][0]) == e[j], cx.t(res["bins"][t][1]) == e[j + 1])
            yield f"content[{t}]", cx.eq(res["freq"][t], f[j])
            yield f"err2[{t}]", cx.eq(res["err2"][t], q[j])
        yield from geom_consistent(cx, res["bins"], res["edges"], "edges_match_bins")
        if not isinstance(res["widths"], Raised) and len(res["widths"]) == len(sel):
            yield "widths_match_bins", z3.And([cx.t(res["widths"][t]) == e[j + 1] - e[j] for t, j in enumerate(sel)] + [z3.BoolVal(True)])
        if contiguous and sel:
            yield "edges_available", not isinstance(res["edges"], Raised)
        yield "right_edge_flag_kept", res["right_flags"] == [obs["source_right_flag"]]
        yield "binning_objects_not_shared", obs["shares_binning"] is False
        yield "arrays_are_copies_not_views", obs["shares_memory"] is False
        yield "meta", res["name"] == "n" and res["axis_names"] == ["ax"] and res["cls"] == "Histogram1D"
        yield "dtype", res["dtype"] == "int64" == res["fdtype"] == res["edtype"]
        if contiguous and sel:
            lo, hi = sel[0], sel[-1]
            yield "underflow", cx.eq(res["under"], u + zsum(f[:lo]))
            yield "overflow", cx.eq(res["over"], o + zsum(f[hi + 1:]))
            yield "conserved", cx.t(res["total"]) + cx.t(res["under"]) + cx.t(res["over"]) == zsum(f) + u + o if cx.finite(res["under"]) and cx.finite(res["over"]) else False
        elif not contiguous:
            yield "missed_unknown", z3.And(cx.is_nan_leaf(res["under"]), cx.is_nan_leaf(res["over"]))


@register
class C11IndexND(Harness):
    prop = "C11"
    group = "indexnd"
    bounds_doc = "2D (2x3) and 3D (2x2x2) histograms with symbolic contents/errors2/edges; index tuples mixing symbolic ints, slices with symbolic bounds and full slices; scalar case; too many indices"

    def instances(self, tier):
        specs2 = ["i", "s", "i,i", "i,s", "s,i", "s,s", ":,i", "i,:", "i,i,i", ":,s", ":,:"]   # ":,:" - every axis kept whole: still a new object
        specs3 = ["i,i,i", "i,s,:", "s,:,i", ":,i,i", "i", "s,s,:", "i,i"] if tier != "quick" else ["i,i,i", "i,s,:", ":,i,i", "i,i"]
        for sp in specs2:
            yield f"nd-S2x3-{sp.replace(',', '_').replace(':', 'c')}", dict(shape=[2, 3], spec=sp)
        for sp in specs3:
            yield f"nd-S2x2x2-{sp.replace(',', '_').replace(':', 'c')}", dict(shape=[2, 2, 2], spec=sp)
        for sp in ("t,:", ":,t", "t,t"):
            yield f"nd-S2x3-{sp.replace(',', '_').replace(':', 'c')}-step2", dict(shape=[2, 3], spec=sp)
        for sp in ("s,s", ":,s", "i,s"):
            yield f"nd-S2x3-{sp.replace(',', '_').replace(':', 'c')}-static-touched", dict(shape=[2, 3], spec=sp, static=True, touch=True)
        yield "nd-S2x3-s_s-touched", dict(shape=[2, 3], spec="s,s", touch=True)
        for sp in ("s,s", "i,s", "s,i", "i", "t,:", ":,t"):
            yield f"nd-S2x3-{sp.replace(',', '_').replace(':', 'c')}-fixed", dict(shape=[2, 3], spec=sp, fixed=True)
        yield "nd-S2x3-c_t-numpy", dict(shape=[2, 3], spec=":,t", numpy=True)
        # an ND source whose second axis has a gap between its bins (pairs), indexed by integers / slices
        for sp in ("i,i", "i,s", ":,i"):
            yield f"nd-S2x3-{sp.replace(',', '_').replace(':', 'c')}-gapped", dict(shape=[2, 3], spec=sp, gapped=True)
        # select() with the axis given by name
        for sp in ("s", "i"):
            yield f"nd-S2x3-select-byname-{sp}", dict(shape=[2, 3], spec=":," + sp, byname=True)
        yield "nd-neg-step", dict(shape=[2, 3], spec="r")

    def declare(self, cx, p):
        shape = p["shape"]
        x = {"f": declare_cells(cx, "f", shape, "int"), "q": declare_cells(cx, "q", shape, "int"),
             "e": [declare_edges(cx, f"e{k}_", shape[k]) if not p.get("fixed") else [float(j) for j in range(shape[k] + 1)] for k in range(len(shape))], "ix": []}
        for t, c in enumerate(p["spec"].split(",")):
            n = shape[t] if t < len(shape) else 2
            if c == "i":
                x["ix"].append(cx.pyint(f"i{t}", -n - 1, n))
            elif c == "s":
                x["ix"].append([cx.pyint(f"a{t}", -n - 1, n + 1), cx.pyint(f"b{t}", -n - 1, n + 1)])
            else:
                x["ix"].append(None)
        return x

    def drive(self, E, p, x):
        np = E.np
        nd = E.mod("physt.histogram_nd")
        shape = p["shape"]
        D = len(shape)
        names = ["a", "b", "c"][:D]
        cls = nd.Histogram2D if D == 2 else nd.HistogramND
        mk = (lambda e: _pairs(np, e)) if p.get("static") else np.asarray
        if p.get("fixed"):
            FWB = E.mod("physt.binnings").FixedWidthBinning
            mk = lambda e: FWB(bin_width=1.0, bin_count=len(e) - 1, bin_times_min=0)  # noqa: E731
        if p.get("numpy"):
            NB = E.mod("physt.binnings").NumpyBinning
            mk = lambda e: NB(np.asarray(e))  # noqa: E731
        if p.get("gapped"):
            # bins [e0, e1], [e1 + 1, e2 + 1], ... on axis 1 (a gap of 1 after the first bin); axis 0 stays consecutive
            def mk(e, _first=[True]):   # noqa: B006
                if _first[0]:
                    _first[0] = False
                    return np.asarray(e)
                return np.asarray([[e[0], e[1]]] + [[e[j] + 1.0, e[j + 1] + 1.0] for j in range(1, len(e) - 1)])
        h = cls([mk(x["e"][k]) for k in range(D)], np.asarray(nested(x["f"], shape), dtype=int), errors2=np.asarray(nested(x["q"], shape), dtype=int), axis_names=names, name="n")
        if p.get("touch"):
            _touch(h)
        key = []
        for c, v in zip(p["spec"].split(","), x["ix"]):
            if c == "i":
                key.append(v)
            elif c == "s":
                key.append(slice(v[0], v[1]))
            elif c == "r":
                key.append(slice(None, None, -1))
            elif c == "t":
                key.append(slice(None, None, 2))
            else:
                key.append(slice(None))
        idx = tuple(key) if len(key) > 1 else key[0]
        if p.get("byname"):
            r = E.attempt(h.select, names[1], key[1])
        else:
            r = E.attempt(lambda: h[idx])
        shares = (not isinstance(r, (Raised, tuple))) and any(rb is sb for rb in r._binnings for sb in h._binnings)
        mem = (not isinstance(r, (Raised, tuple))) and (bool(np.shares_memory(r.frequencies, h.frequencies)) or bool(np.shares_memory(r.errors2, h.errors2)) or bool(np.shares_memory(r._missed, h._missed)))
        return {"res": _snap_any(E, r), "after": snapnd(E, h), "distinct": r is not h, "shares_binning": shares, "shares_memory": mem, "source_right_flags": [bool(b.includes_right_edge) for b in h._binnings]}

    def oracle(self, cx, p, x, obs):
        shape = p["shape"]
        D = len(shape)
        names = ["a", "b", "c"][:D]
        idxs = product_indices(shape)
        f = {i: cx.t(v) for i, v in zip(idxs, x["f"])}
        q = {i: cx.t(v) for i, v in zip(idxs, x["q"])}
        e = [[cx.t(t) for t in x["e"][k]] for k in range(D)]
        aft = obs["after"]
        # (left, right) per bin; the gapped source shifts every bin of axis 1 after the first by 1
        LR = [[(e[k][j] + (1 if (p.get("gapped") and k == 1 and j > 0) else 0), e[k][j + 1] + (1 if (p.get("gapped") and k == 1 and j > 0) else 0)) for j in range(shape[k])] for k in range(D)]
        yield "source_unchanged", z3.And([cx.eq(getcell(aft["freq"], i), f[i]) for i in idxs] + [cx.eq(getcell(aft["err2"], i), q[i]) for i in idxs]
                                         + [z3.BoolVal(aft["shape"] == shape and aft["axis_names"] == names)])
        res = obs["res"]
        codes = p["spec"].split(",")
        if p["spec"] == "r":
            yield "reversed_refused", "raised" in res
            return
        if len(codes) > D:
            for c, v in zip(codes, x["ix"]):
                if c == "i":
                    cx.concrete_int(v)
            yield "too_many_refused", "raised" in res and res["raised"].name == "IndexError"
            return
        sel, dropped, bad = [], [], False
        for k in range(D):
            c = codes[k] if k < len(codes) else ":"
            pos = list(range(shape[k]))
            if c == "i":
                i = cx.concrete_int(x["ix"][k])
                if not (-shape[k] <= i < shape[k]):
                    bad = True
                    sel.append([])
                else:
                    sel.append([i % shape[k]])
                dropped.append(k)
            elif c == "s":
                a, b = cx.concrete_int(x["ix"][k][0]), cx.concrete_int(x["ix"][k][1])
                sel.append(pos[slice(a, b)])
            elif c == "t":
                sel.append(pos[::2])
            else:
                sel.append(pos)
        if bad:
            yield "out_of_range_refused", "raised" in res and res["raised"].name == "IndexError"
            return
        kept = [k for k in range(D) if k not in dropped]
        if not kept:
            yield "scalar_case", "tuple" in res
            if "tuple" in res:
                i = tuple(s[0] for s in sel)
                yield "scalar_value", z3.And([cx.eq(res["tuple"][1], f[i])] + [z3.And(cx.t(res["tuple"][0][k][0]) == LR[k][i[k]][0], cx.t(res["tuple"][0][k][1]) == LR[k][i[k]][1]) for k in range(D)])
            return
        yield "no_exception", "raised" not in res and "tuple" not in res
        if "raised" in res or "tuple" in res:
            return
        kshape = [len(sel[k]) for k in kept]
        yield "ndim", res["ndim"] == len(kept)
        yield "right_edge_flags_kept", res["right_flags"] == [obs["source_right_flags"][k] for k in kept]
        yield "binning_objects_not_shared", obs["shares_binning"] is False
        yield "arrays_are_copies_not_views", obs["shares_memory"] is False
        yield "axis_names", res["axis_names"] == [names[k] for k in kept]
        yield "class", res["cls"] == {1: "Histogram1D", 2: "Histogram2D"}.get(len(kept), "HistogramND")
        got_shape = [len(res["bins"])] if len(kept) == 1 else [len(b) for b in res["bins"]]
        yield "shape", got_shape == kshape
        if got_shape != kshape or res["ndim"] != len(kept):
            return
        rb = [res["bins"]] if len(kept) == 1 else res["bins"]
        re_ = [res["edges"]] if len(kept) == 1 else res["edges"]
        for t in range(len(kept)):
            yield from geom_consistent(cx, rb[t], re_[t], f"edges_match_bins[{t}]")
            if kshape[t] and (codes[kept[t]] if kept[t] < len(codes) else ":") != "t" and not (p.get("gapped") and kept[t] == 1 and kshape[t] > 1):
                yield f"edges_available[{t}]", not isinstance(re_[t], Raised)
        for t, k in enumerate(kept):
            for s_, j in enumerate(sel[k]):
                yield f"bins[{t}][{s_}]", z3.And(cx.t(rb[t][s_][0]) == LR[k][j][0], cx.t(rb[t][s_][1]) == LR[k][j][1])
        for ridx in product_indices(kshape):
            src = [None] * D
            for t, k in enumerate(kept):
                src[k] = sel[k][ridx[t]]
            for k in dropped:
                src[k] = sel[k][0]
            src = tuple(src)
            tag = ",".join(map(str, ridx))
            yield f"content[{tag}]", cx.eq(getcell(res["freq"], ridx), f[src])
            yield f"err2[{tag}]", cx.eq(getcell(res["err2"], ridx), q[src])
        yield "name", res["name"] == "n"
