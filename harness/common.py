"""Shared pieces of the harnesses: reference formulas (z3) and world-agnostic snapshot helpers."""
from __future__ import annotations

import z3

from symx.api import ShapeMismatch, Raised

def _q(f):
    n, d = float(f).as_integer_ratio()
    return z3.Q(n, d)


# np.allclose defaults exactly as physt passes them (binary64 constants), doubled: junctions within twice the
# tolerance band are library-defined "consecutive up to tolerance" and outside the claim
ATOL, RTOL = _q(1e-8) * 2, _q(1e-5) * 2


def zsum(terms):
    terms = list(terms)
    if not terms:
        return z3.IntVal(0)
    r = terms[0]
    for t in terms[1:]:
        r = r + t
    return r


def zabs(t):
    return z3.If(t >= 0, t, -t)


def in_bin(v, lo, hi, closed):
    return z3.And(lo <= v, (v <= hi) if closed else (v < hi))


def rising_pairs(L, R):
    """Strictly rising, non-overlapping bins given as pairs."""
    c = [L[j] < R[j] for j in range(len(L))]
    c += [R[j] <= L[j + 1] for j in range(len(L) - 1)]
    return z3.And(c) if c else z3.BoolVal(True)


def tolerance_band(L, R):
    """Each junction is either exactly consecutive or a clear gap outside np.allclose's band."""
    c = []
    for j in range(len(L) - 1):
        gap = L[j + 1] - R[j]
        c.append(z3.Or(gap == 0, gap > ATOL + RTOL * zabs(R[j])))
    return z3.And(c) if c else z3.BoolVal(True)


def consecutive(L, R):
    c = [L[j + 1] == R[j] for j in range(len(L) - 1)]
    return z3.And(c) if c else z3.BoolVal(True)


def _edges(E, b):
    """numpy-style edges of one binning (a second, separately cached view of its bins); refused for gapped bins."""
    r = E.attempt(lambda: b.numpy_bins)
    return r if isinstance(r, Raised) else r.tolist()


def snap1d(E, h, stats=False):
    """Observable state of a 1D histogram (same code in both worlds)."""
    d = {
        "geom": "1d",
        "edges": _edges(E, h.binning),
        "freq": h.frequencies.tolist(),
        "err2": h.errors2.tolist(),
        "missed": h._missed.tolist(),
        "under": h.underflow,
        "over": h.overflow,
        "inner": h.inner_missed,
        "total": h.total,
        "dtype": str(h.dtype),
        "fdtype": str(h.frequencies.dtype),
        "edtype": str(h.errors2.dtype),
        "bins": h.bins.tolist(),
        "keep_missed": h.keep_missed,
        "shape": list(h.shape),
    }
    if stats:
        s = h.statistics
        d["stats"] = {"sum": s.sum, "sum2": s.sum2, "min": s.min, "max": s.max, "weight": s.weight, "median": s.median}
    return d


def snapnd(E, h):
    return {
        "geom": "nd" if h.ndim > 1 else "1d",
        "edges": [_edges(E, b) for b in h._binnings] if h.ndim > 1 else _edges(E, h._binnings[0]),
        "freq": h.frequencies.tolist(),
        "err2": h.errors2.tolist(),
        "missed": h.missed,
        "total": h.total,
        "dtype": str(h.dtype),
        "fdtype": str(h.frequencies.dtype),
        "edtype": str(h.errors2.dtype),
        "bins": [b.tolist() for b in h.bins],
        "shape": list(h.shape),
        "axis_names": list(h.axis_names),
    }


def product_indices(shape):
    import itertools

    return list(itertools.product(*[range(s) for s in shape]))


def getcell(a, idx):
    for i in idx:
        if not isinstance(a, (list, tuple)) or not -len(a) <= i < len(a):
            raise ShapeMismatch(f"no cell {list(idx)}")
        a = a[i]
    return a


def nested(flat, shape):
    """Flat list -> nested lists of the given shape."""
    if len(shape) == 1:
        return list(flat)
    step = 1
    for s in shape[1:]:
        step *= s
    return [nested(flat[i * step:(i + 1) * step], shape[1:]) for i in range(shape[0])]


def declare_cells(cx, name, shape, kind="real", nonneg=True):
    """Symbolic cell contents as a flat list (C order)."""
    n = 1
    for s in shape:
        n *= s
    if kind == "int":
        cells = cx.ints(name, n, lo=0 if nonneg else None)
    else:
        cells = cx.reals(name, n)
        if cx.sym and nonneg:
            cx.assume(*[c >= 0 for c in cells])
    return cells


def declare_edges(cx, name, m):
    e = cx.reals(name, m + 1)
    if cx.sym:
        cx.assume(*[e[j] < e[j + 1] for j in range(m)])
    return e
