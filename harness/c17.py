"""C17 - every supported input container gives the same histogram as its array (generic containers; see DESIGN for the rest)."""
from __future__ import annotations

import z3

from symx.api import Harness, Raised, register

from .c12 import full, same_snapshot
from .common import zsum
from .common import declare_edges


class Named(list):
    """A list with a name (what extract_axis_name looks at: any object with a .name attribute)."""

    def __init__(self, items, name):
        super().__init__(items)
        self.name = name


def named_array(E, items, name):
    """A float array carrying a .name attribute (what a pandas-like column looks like to extract_axis_name)."""
    np = E.np
    a = np.asarray(items, dtype=float)
    if not E.sym:
        a = a.view(type("NamedArray", (np.ndarray,), {}))
    a.name = name
    return a


FORMS_1D = ["list", "tuple", "generator", "iterator", "iterator_rows", "generator_rows", "nested_list", "array2d", "range_like", "named_list"]
FORMS_ND = ["list_of_rows", "tuple_of_rows", "list_of_tuples", "h2_lists", "h2_tuple_array", "h2_generators", "h2_iterator_map", "h3_lists", "h3_arrays", "fill_n_columns"]


@register
class C17Generic1D(Harness):
    prop = "C17"
    group = "generic1d"
    bounds_doc = "h1 over N=4 NaN-able symbolic values given as list / tuple / generator / iterator / nested list / 2-D array / named list, weights as list / tuple / array (same nesting), dropna on/off: identical to h1 of the flat numpy array; scalars, strings, ragged nestings, mismatching weights refused"

    def instances(self, tier):
        for form in FORMS_1D:
            for wk in ("none", "list", "array"):
                if form == "range_like" and wk != "none":
                    continue
                yield f"c1d-{form}-w{wk}", dict(form=form, weights=wk, bad=None)
        for bad in ("scalar", "string", "ragged", "weights_short", "weights_2d_for_1d", "none_with_bins", "dict"):
            yield f"c1d-bad-{bad}", dict(form="list", weights="none", bad=bad)
        yield "c1d-nan-dropna-off", dict(form="list", weights="none", bad="nan_no_dropna")
        yield "c1d-nan-dropna-off-range", dict(form="list", weights="none", bad="nan_no_dropna_range")
        yield "c1d-nan-dropna-off-range-int", dict(form="tuple", weights="none", bad="nan_no_dropna_range_int")
        for nm in ("int7", "int0", "tuple"):
            yield f"c1d-named-{nm}", dict(form="named_list", weights="none", bad=None, name=nm)
        # infinite entries are not NaN: they are kept (as overflow / underflow) together with their weights
        for form in ("list", "array2d", "iterator"):
            for inf in ("+inf", "-inf"):
                yield f"c1d-{form}-wlist-{inf}", dict(form=form, weights="list", bad=None, inf=inf)

    def declare(self, cx, p):
        x = {"v": cx.reals("v", 2, nan=(p["form"] != "range_like")), "w": cx.ints("w", 2, 0, 5), "e": declare_edges(cx, "e", 2)}
        if cx.sym and p["form"] == "range_like":
            pass
        return x

    def _container(self, E, p, vals):
        np = E.np
        f = p["form"]
        if f == "list":
            return list(vals)
        if f == "tuple":
            return tuple(vals)
        if f == "generator":
            return (v for v in vals)
        if f == "iterator":
            return iter(list(vals))
        if f == "iterator_rows":       # the iterator form of a multi-dimensional array: every item is a row
            return iter([[vals[0]], [vals[1]]])
        if f == "generator_rows":
            return ((v,) for v in vals)
        if f == "nested_list":
            return [[vals[0]], [vals[1]]]
        if f == "array2d":
            return np.asarray([[vals[0]], [vals[1]]], dtype=float)
        if f == "named_list":
            return Named(vals, {"int7": 7, "int0": 0, "tuple": ("track", 1)}.get(p.get("name"), "col"))
        return range(2)

    def drive(self, E, p, x):
        np = E.np
        h1 = E.mod("physt._facade").h1
        edges = np.asarray(x["e"])
        bad = p["bad"]
        if bad:
            args = {"scalar": (5,), "string": ("abc",), "ragged": ([[x["v"][0], x["v"][1]], [x["v"][0]]],), "dict": ({"a": 1},), "none_with_bins": (None,),
                    "weights_short": (list(x["v"]),), "weights_2d_for_1d": (list(x["v"]),), "nan_no_dropna": (list(x["v"]),),
                    "nan_no_dropna_range": (list(x["v"]),), "nan_no_dropna_range_int": (tuple(x["v"]),)}[bad]
            kw = {}
            if bad == "weights_short":
                kw["weights"] = [1, 2, 3]
            if bad == "weights_2d_for_1d":
                kw["weights"] = [[1], [3]]
            if bad == "nan_no_dropna":
                kw["dropna"] = False
            if bad == "nan_no_dropna_range":
                kw.update(dropna=False, range=(x["e"][0], x["e"][-1]))
            if bad == "nan_no_dropna_range_int":
                r = E.attempt(h1, args[0], 2, dropna=False, range=(x["e"][0], x["e"][-1]))
                return {"res": {"raised": r} if isinstance(r, Raised) else full(E, r)}
            r = E.attempt(h1, args[0], edges, **kw)
            return {"res": {"raised": r} if isinstance(r, Raised) else full(E, r)}
        vals = list(x["v"]) if p["form"] != "range_like" else [0.0, 1.0]
        if p.get("inf"):
            vals[1] = float("inf") if p["inf"] == "+inf" else float("-inf")
        nested = p["form"] in ("nested_list", "array2d", "iterator_rows", "generator_rows")
        kw, kw_ref = {}, {}
        if p["weights"] != "none":
            ws = list(x["w"])
            shaped = [[ws[0]], [ws[1]]] if nested else ws
            kw["weights"] = shaped if p["weights"] == "list" else np.asarray(shaped)
            kw_ref["weights"] = np.asarray(ws)
        got = E.attempt(h1, self._container(E, p, vals), edges, **kw)
        ref = E.attempt(h1, np.asarray(vals, dtype=float), edges, **kw_ref)
        return {"got": {"raised": got} if isinstance(got, Raised) else full(E, got), "ref": {"raised": ref} if isinstance(ref, Raised) else full(E, ref)}

    def oracle(self, cx, p, x, obs):
        yield "no_harness_exception", obs.get("raised") is None
        if obs.get("raised") is not None:
            return
        bad = p["bad"]
        if bad == "none_with_bins":
            yield "none_gives_empty_histogram", "raised" not in obs["res"] and z3.And([cx.eq(v, 0) for v in obs["res"]["freq"]]) is not None
            return
        if bad in ("nan_no_dropna", "nan_no_dropna_range", "nan_no_dropna_range_int"):
            anynan = z3.Or([cx.isnan(v) for v in x["v"]])
            yield "nan_without_dropna_refused", z3.BoolVal("raised" in obs["res"]) == anynan
            return
        if bad:
            yield "refused", "raised" in obs["res"] and obs["res"]["raised"].name in ("ValueError", "TypeError")
            return
        yield "array_reference_ok", "raised" not in obs["ref"]
        yield "container_accepted", "raised" not in obs["got"]
        if "raised" in obs["got"] or "raised" in obs["ref"]:
            return
        g, r = dict(obs["got"]), dict(obs["ref"])
        if p["form"] == "named_list":
            yield "axis_name_from_container", g["axis_names"] == [{"int7": "7", "int0": "0", "tuple": "track, 1"}.get(p.get("name"), "col")]
            g["axis_names"] = r["axis_names"]
            g["meta_keys"], r["meta_keys"] = [], []
        if p["form"].startswith(("h2", "h3")):
            # unnamed columns give axis names (None, None); the array gives the defaults - names are checked separately
            g["axis_names"] = r["axis_names"]
        yield "same_as_array", same_snapshot(cx, g, r)
        # absolute accounting (the array reference runs through the same extraction code): every non-NaN entry is counted somewhere
        if p["form"] != "range_like" and p["weights"] != "none":
            w = [cx.t(i) for i in x["w"]]
            keep = [z3.Not(cx.isnan(v)) for v in x["v"]]
            if p.get("inf"):
                keep[1] = z3.BoolVal(True)
            expected = sum([z3.If(k, wi, 0) for k, wi in zip(keep, w)], z3.IntVal(0))
            m = g["missed"]
            yield "every_non_nan_entry_accounted", cx.t(zsum_list(cx, g["freq"])) + cx.t(m[0]) + cx.t(m[1]) == expected if all(cx.finite(t) for t in m[:2]) else False
            if p.get("inf"):
                yield "infinite_entry_is_overflow_or_underflow", cx.eq(m[1] if p["inf"] == "+inf" else m[0], z3.If(z3.And(keep[0], (cx.t(x["v"][0]) > cx.t(x["e"][-1])) if p["inf"] == "+inf" else (cx.t(x["v"][0]) < cx.t(x["e"][0]))), w[0], 0) + w[1])


def zsum_list(cx, a):
    return sum([cx.t(v) for v in a], z3.IntVal(0))


@register
class C17GenericND(Harness):
    prop = "C17"
    group = "genericnd"
    bounds_doc = "h / h2 / h3 / fill_n(columns=True) over N=2 rows of NaN-able symbolic values given as list of rows, tuple of rows, list of tuples, separate column lists / arrays: identical to h of the (n, d) numpy array incl. NaN rows dropped with their weights; 1-D data, unequal column lengths, wrong weight length refused; explicit axis names and names taken from named columns"

    def instances(self, tier):
        for form in FORMS_ND:
            for wk in ("none", "list"):
                yield f"cnd-{form}-w{wk}", dict(form=form, weights=wk, bad=None)
        # a row of infinities of both signs is not a NaN row: it is kept (in no cell, so its weight is missed)
        for form in ("list_of_rows", "tuple_of_rows", "h2_lists"):
            yield f"cnd-{form}-wlist-infmix", dict(form=form, weights="list", bad=None, infmix=True)
        for bad in ("one_dim", "unequal_columns", "weights_len", "ragged_rows", "axis_names_len", "h3_four_columns", "h3_two_columns_int_bins", "h3_four_columns_int_bins", "h2_dim_three_columns", "h_dim_too_small", "h2_second_none", "h2_first_none", "h2_scalars"):
            yield f"cnd-bad-{bad}", dict(form="list_of_rows", weights="none", bad=bad)
        yield "cnd-named-columns", dict(form="h2_named", weights="none", bad=None)
        for form in ("h3_named", "h3_lists_explicit_names", "h2_named_explicit_names", "h2_lists_explicit_names", "rows_explicit_names"):
            yield f"cnd-{form}", dict(form=form, weights="none", bad=None)

    def declare(self, cx, p):
        d = 3 if p["form"].startswith("h3") else 2
        return {"x": [[cx.real(f"x{i}_{k}", nan=not p["form"].endswith("names") and p["form"] != "h3_named") for k in range(d)] for i in range(2)], "w": cx.ints("w", 2, 0, 5),
                "e": [declare_edges(cx, f"e{k}_", 2 if k == 0 else 1) for k in range(d)]}

    def drive(self, E, p, x):
        np = E.np
        fac = E.mod("physt._facade")
        rows = x["x"]
        if p.get("infmix"):
            rows = [rows[0], [float("inf"), float("-inf")] + list(rows[1][2:])]
        d = len(rows[0])
        bins = [np.asarray(e) for e in x["e"]]
        arr = np.asarray(rows, dtype=float).reshape((2, d))
        kw, kw_ref = {}, {}
        if p["weights"] == "list":
            kw["weights"] = list(x["w"])
            kw_ref["weights"] = np.asarray(x["w"])
        bad = p["bad"]
        if bad:
            if bad == "one_dim":
                r = E.attempt(fac.h, [rows[0][0], rows[1][0]], bins)
            elif bad == "unequal_columns":
                r = E.attempt(fac.h2, [rows[0][0], rows[1][0]], [rows[0][1]], bins)
            elif bad == "weights_len":
                r = E.attempt(fac.h, arr, bins, weights=[1, 2, 3])
            elif bad == "h2_scalars":
                r = E.attempt(fac.h2, rows[0][0], rows[0][1], bins)
            elif bad == "h2_second_none":
                r = E.attempt(fac.h2, [rows[0][0], rows[1][0]], None, bins)
            elif bad == "h2_first_none":
                r = E.attempt(fac.h2, None, [rows[0][1], rows[1][1]], bins)
            elif bad == "h3_four_columns":
                r = E.attempt(fac.h3, np.asarray([[rows[0][0], rows[0][1], rows[1][0], rows[1][1]]], dtype=float), [np.asarray([0.0, 1.0])] * 3)
            elif bad == "h3_two_columns_int_bins":      # one table with the wrong number of columns and bins that do not reveal the dimension
                r = E.attempt(fac.h3, arr, 2)
            elif bad == "h3_four_columns_int_bins":
                r = E.attempt(fac.h3, np.asarray([[rows[0][0], rows[0][1], rows[1][0], rows[1][1]], [rows[1][1], rows[1][0], rows[0][1], rows[0][0]]], dtype=float), 2)
            elif bad == "h2_dim_three_columns":
                r = E.attempt(fac.h, np.asarray([[rows[0][0], rows[0][1], rows[1][0]]], dtype=float), [np.asarray([0.0, 1.0])] * 2, dim=2)
            elif bad == "h_dim_too_small":
                r = E.attempt(fac.h, [[rows[0][0], rows[0][1], rows[1][0]], [rows[1][1], rows[0][0], rows[0][1]]], 2, dim=2)
            elif bad == "ragged_rows":
                r = E.attempt(fac.h, [[rows[0][0], rows[0][1]], [rows[1][0]]], bins)
            else:
                r = E.attempt(fac.h, arr, bins, axis_names=["only_one"])
            return {"res": {"raised": r} if isinstance(r, Raised) else full(E, r)}
        f = p["form"]
        cols = [[rows[0][k], rows[1][k]] for k in range(d)]
        ref = E.attempt(fac.h, arr, bins, **kw_ref)
        if f == "list_of_rows":
            got = E.attempt(fac.h, [list(r) for r in rows], bins, **kw)
        elif f == "tuple_of_rows":
            got = E.attempt(fac.h, tuple(tuple(r) for r in rows), bins, **kw)
        elif f == "list_of_tuples":
            got = E.attempt(fac.h, [tuple(r) for r in rows], bins, **kw)
        elif f == "h2_lists":
            got = E.attempt(fac.h2, cols[0], cols[1], bins, **kw)
        elif f == "h2_generators":
            got = E.attempt(fac.h2, (v for v in cols[0]), (v for v in cols[1]), bins, **kw)
        elif f == "h2_iterator_map":
            got = E.attempt(fac.h2, iter(list(cols[0])), map(lambda v: v, cols[1]), bins, **kw)
        elif f == "h2_tuple_array":
            got = E.attempt(fac.h2, tuple(cols[0]), np.asarray(cols[1], dtype=float), bins, **kw)
        elif f == "h2_named":
            got = E.attempt(fac.h2, Named(cols[0], "first"), Named(cols[1], "second"), bins, **kw)
        elif f == "h3_named":
            got = E.attempt(fac.h3, [named_array(E, c, n) for c, n in zip(cols, ("first", "second", "third"))], bins, **kw)
        elif f == "h3_lists_explicit_names":
            got = E.attempt(fac.h3, [np.asarray(c, dtype=float) for c in cols], bins, axis_names=["p", "q", "r"], **kw)
        elif f == "h2_named_explicit_names":
            got = E.attempt(fac.h2, Named(cols[0], "first"), Named(cols[1], "second"), bins, axis_names=["p", "q"], **kw)
        elif f == "h2_lists_explicit_names":
            got = E.attempt(fac.h2, cols[0], cols[1], bins, axis_names=["p", "q"], **kw)
        elif f == "rows_explicit_names":
            got = E.attempt(fac.h, [list(r) for r in rows], bins, axis_names=["p", "q"], **kw)
        elif f == "h3_lists":
            got = E.attempt(fac.h3, [np.asarray(c, dtype=float) for c in cols], bins, **kw)
        elif f == "h3_arrays":
            got = E.attempt(fac.h3, arr, bins, **kw)
        else:
            nd = E.mod("physt.histogram_nd")
            cls = nd.Histogram2D
            SB = E.mod("physt.binnings").StaticBinning
            mk = lambda: cls([SB(np.asarray([[x["e"][k][j], x["e"][k][j + 1]] for j in range(len(x["e"][k]) - 1)])) for k in range(d)])  # noqa: E731
            a, b = mk(), mk()
            r1 = E.attempt(a.fill_n, [cols[0], cols[1]], columns=True, **kw)
            r2 = E.attempt(b.fill_n, arr, **kw_ref)
            got = a if not isinstance(r1, Raised) else r1
            ref = b if not isinstance(r2, Raised) else r2
        return {"got": {"raised": got} if isinstance(got, Raised) else full(E, got), "ref": {"raised": ref} if isinstance(ref, Raised) else full(E, ref)}

    def oracle(self, cx, p, x, obs):
        yield "no_harness_exception", obs.get("raised") is None
        if obs.get("raised") is not None:
            return
        if p["bad"]:
            yield "refused", "raised" in obs["res"] and obs["res"]["raised"].name in ("ValueError", "TypeError")
            return
        yield "array_reference_ok", "raised" not in obs["ref"]
        yield "container_accepted", "raised" not in obs["got"]
        if "raised" in obs["got"] or "raised" in obs["ref"]:
            return
        g, r = dict(obs["got"]), dict(obs["ref"])
        if p["form"] == "h2_named":
            yield "axis_names_from_columns", g["axis_names"] == ["first", "second"]
            g["axis_names"] = r["axis_names"]
        if p["form"] == "h3_named":
            yield "axis_names_from_columns", g["axis_names"] == ["first", "second", "third"]
            g["axis_names"] = r["axis_names"]
        if p["form"].endswith("explicit_names"):
            yield "explicit_axis_names_win", g["axis_names"] == (["p", "q", "r"] if p["form"].startswith("h3") else ["p", "q"])
            g["axis_names"] = r["axis_names"]
        g["meta_keys"], r["meta_keys"] = [], []
        if p["form"].startswith(("h2", "h3")):
            # unnamed columns give axis names (None, None); the array gives the defaults - names are checked separately
            g["axis_names"] = r["axis_names"]
        yield "same_as_array", same_snapshot(cx, g, r)
        if p.get("infmix"):
            # absolute accounting (the array reference goes through the same extraction): cells + missed = weight of the rows without NaN
            w = [cx.t(i) for i in x["w"]]
            keep0 = z3.Not(z3.Or([cx.isnan(c) for c in x["x"][0]]))
            cells = [c for row in g["freq"] for c in (row if isinstance(row, list) else [row])]
            yield "infinite_row_is_missed_not_dropped", zsum([cx.t(c) for c in cells] + [cx.t(g["missed"][0])]) == z3.If(keep0, w[0], 0) + w[1]


@register
class C17Layouts(Harness):
    prop = "C17"
    group = "layouts"
    bounds_doc = "4 symbolic values as 2x2 arrays in non-C memory layouts (transposed view, strided view, reversed view, Fortran-ordered copy) with same-shape weights / a second coordinate array in a different layout, through h1 (dropna on / off), Histogram1D.fill_n and h2: identical to the histogram of the flat C-ordered array of the same logical elements"

    def instances(self, tier):
        for layout in (("transposed", "fortran") if tier == "quick" else ("transposed", "strided", "reversed", "fortran")):
            for way in ("h1_w_dropna0", "h1_w_dropna1", "fill_n_w", "h2_mixed"):
                yield f"lay-{layout}-{way}", dict(layout=layout, way=way)

    def declare(self, cx, p):
        return {"v": cx.reals("v", 4), "u": cx.reals("u", 4), "w": cx.ints("w", 4, 0, 5), "e": declare_edges(cx, "e", 1), "d": declare_edges(cx, "d", 1)}

    @staticmethod
    def _view(np, vals, layout, dt):
        """A 2x2 array whose logical (C-order) elements are known, stored in a non-C layout. Returns (array, logical flat list)."""
        a, b, c, d = vals
        if layout == "transposed":        # base memory a b c d, logical a c b d
            return np.asarray([[a, b], [c, d]], dtype=dt).T, [a, c, b, d]
        if layout == "strided":           # every second column of a 2x4 array
            return np.asarray([[a, 0, b, 0], [c, 0, d, 0]], dtype=dt)[:, ::2], [a, b, c, d]
        if layout == "reversed":
            return np.asarray([[a, b], [c, d]], dtype=dt)[::-1], [c, d, a, b]
        return np.asarray([[a, b], [c, d]], dtype=dt).copy(order="F"), [a, b, c, d]

    def drive(self, E, p, x):
        np = E.np
        fac = E.mod("physt._facade")
        H1 = E.mod("physt.histogram1d").Histogram1D
        way = p["way"]
        data, flat = self._view(np, x["v"], p["layout"], float)
        wts, wflat = self._view(np, x["w"], p["layout"], int)
        e, d = np.asarray(x["e"]), np.asarray(x["d"])
        if way.startswith("h1_w"):
            dropna = way.endswith("1")
            got = E.attempt(fac.h1, data, e, weights=wts, dropna=dropna)
            ref = E.attempt(fac.h1, np.asarray(flat, dtype=float), e, weights=np.asarray(wflat, dtype=int))
        elif way == "fill_n_w":
            a, b = H1(e), H1(e)
            r1 = E.attempt(a.fill_n, data, weights=wts)
            r2 = E.attempt(b.fill_n, np.asarray(flat, dtype=float), weights=np.asarray(wflat, dtype=int))
            got, ref = (a if not isinstance(r1, Raised) else r1), (b if not isinstance(r2, Raised) else r2)
        else:
            # second coordinate: same shape, plain C order (so the two arrays differ in memory layout)
            y = np.asarray([[x["u"][0], x["u"][1]], [x["u"][2], x["u"][3]]], dtype=float)
            got = E.attempt(fac.h2, data, y, [e, d])
            ref = E.attempt(fac.h2, np.asarray(flat, dtype=float), np.asarray(list(x["u"]), dtype=float), [e, d])
        return {"got": {"raised": got} if isinstance(got, Raised) else full(E, got), "ref": {"raised": ref} if isinstance(ref, Raised) else full(E, ref)}

    def oracle(self, cx, p, x, obs):
        yield "no_harness_exception", obs.get("raised") is None
        if obs.get("raised") is not None:
            return
        yield "array_reference_ok", "raised" not in obs["ref"]
        yield "container_accepted", "raised" not in obs["got"]
        if "raised" in obs["got"] or "raised" in obs["ref"]:
            return
        g, r = dict(obs["got"]), dict(obs["ref"])
        g["meta_keys"], r["meta_keys"] = [], []
        yield "same_as_flat_array", same_snapshot(cx, g, r)
        # and the reference itself: contents are the weights of the logical elements inside the bin
        if p["way"] != "h2_mixed":
            _, flat = self._view_terms(cx, x["v"], p["layout"])
            _, wflat = self._view_terms(cx, x["w"], p["layout"])
            e = [cx.t(t) for t in x["e"]]
            inside = [z3.And(v >= e[0], v <= e[1]) for v in flat]
            yield "content", cx.eq(g["freq"][0], sum([z3.If(c, w, 0) for c, w in zip(inside, wflat)], z3.IntVal(0)))

    def _view_terms(self, cx, vals, layout):
        a, b, c, d = [cx.t(v) for v in vals]
        return None, {"transposed": [a, c, b, d], "strided": [a, b, c, d], "reversed": [c, d, a, b], "fortran": [a, b, c, d]}[layout]


@register
class C17Pandas(Harness):
    prop = "C17"
    group = "pandas"
    stubs = ("pandas replaced (symbolic world) by a contract stub of the ~15 Series / DataFrame / IntervalIndex methods physt.compat.pandas calls; every witness is replayed with the real pandas",)
    bounds_doc = "pandas Series / DataFrame of N=2 NaN-able symbolic values (2 columns), through h1 / h / the .physt accessors: same histogram as from the array, axis names from the Series / column names unless given, NaN entries / rows dropped with their weights, non-numeric refused; binning <-> IntervalIndex and to_dataframe / to_series preserve bins, contents and errors"

    def instances(self, tier):
        for way in ("h1_series", "accessor_h1", "h1_series_weights", "h1_series_named_override", "series_int", "series_object", "h1_dataframe_refused",
                    "h_dataframe", "accessor_histogram", "accessor_h2", "h_dataframe_weights", "df_h1_column", "df_h1_weight_column", "df_object_column", "df_missing_column",
                    "index_roundtrip", "to_dataframe", "to_series", "index_right_closed", "index_overlapping"):
            yield f"pd-{way}", dict(way=way)

    def declare(self, cx, p):
        nan = p["way"] not in ("series_int", "index_roundtrip", "to_dataframe", "to_series")
        x = {"a": cx.reals("a", 2, nan=nan), "b": cx.reals("b", 2, nan=nan), "w": cx.ints("w", 2, 0, 5), "e": declare_edges(cx, "e", 2), "f": cx.ints("f", 2, 0, 50), "k": cx.ints("k", 2, -5, 5)}
        return x

    def drive(self, E, p, x):
        np = E.np
        pd = E.mod("pandas")
        E.mod("physt.compat.pandas")
        fac = E.mod("physt._facade")
        cp = E.mod("physt.compat.pandas")
        edges = np.asarray(x["e"])
        e2 = [edges, np.asarray([x["e"][0], x["e"][2]])]
        way = p["way"]
        a, b = list(x["a"]), list(x["b"])
        arr_a = np.asarray(a, dtype=float)
        arr2 = np.asarray([[a[0], b[0]], [a[1], b[1]]], dtype=float)
        sa = pd.Series(np.asarray(a, dtype=float), name="alpha")
        df = pd.DataFrame({"alpha": np.asarray(a, dtype=float), "beta": np.asarray(b, dtype=float)})
        ref = got = None
        out = {}
        if way == "h1_series":
            got, ref = E.attempt(fac.h1, sa, edges), E.attempt(fac.h1, arr_a, edges)
        elif way == "accessor_h1":
            got, ref = E.attempt(lambda: sa.physt.h1(edges)), E.attempt(fac.h1, arr_a, edges)
        elif way == "h1_series_weights":
            got, ref = E.attempt(fac.h1, sa, edges, weights=list(x["w"])), E.attempt(fac.h1, arr_a, edges, weights=np.asarray(x["w"]))
        elif way == "h1_series_named_override":
            got, ref = E.attempt(fac.h1, sa, edges, axis_name="given"), E.attempt(fac.h1, arr_a, edges, axis_name="given")
        elif way == "series_int":
            si = pd.Series(np.asarray(x["k"], dtype=int), name="alpha")
            got, ref = E.attempt(fac.h1, si, edges), E.attempt(fac.h1, np.asarray(x["k"], dtype=float), edges)
        elif way == "series_object":
            so = pd.Series(["x", "y"], name="alpha")
            r1 = E.attempt(fac.h1, so, edges)
            r2 = E.attempt(lambda: so.physt)
            return {"refused": [isinstance(r1, Raised) and r1.name, isinstance(r2, Raised) and r2.name]}
        elif way == "h1_dataframe_refused":
            r1 = E.attempt(fac.h1, df, edges)
            return {"refused": [isinstance(r1, Raised) and r1.name]}
        elif way == "h_dataframe":
            got, ref = E.attempt(fac.h, df, e2), E.attempt(fac.h, arr2, e2)
        elif way == "accessor_histogram":
            got, ref = E.attempt(lambda: df.physt.histogram(bins=e2)), E.attempt(fac.h, arr2, e2)
        elif way == "accessor_h2":
            got, ref = E.attempt(lambda: df.physt.h2("alpha", "beta", bins=e2)), E.attempt(fac.h, arr2, e2)
        elif way == "h_dataframe_weights":
            got, ref = E.attempt(fac.h, df, e2, weights=list(x["w"])), E.attempt(fac.h, arr2, e2, weights=np.asarray(x["w"]))
        elif way == "df_h1_column":
            got, ref = E.attempt(lambda: df.physt.h1("alpha", edges)), E.attempt(fac.h1, arr_a, edges)
        elif way == "df_h1_weight_column":
            dfw = pd.DataFrame({"alpha": np.asarray(a, dtype=float), "wt": np.asarray(x["w"], dtype=int)})
            got, ref = E.attempt(lambda: dfw.physt.h1("alpha", edges, weights="wt")), E.attempt(fac.h1, arr_a, edges, weights=np.asarray(x["w"]))
        elif way == "df_object_column":
            dfo = pd.DataFrame({"alpha": np.asarray(a, dtype=float), "txt": ["x", "y"]})
            r1 = E.attempt(fac.h, dfo, e2)
            r2 = E.attempt(lambda: dfo.physt.h1("txt", edges))
            return {"refused": [isinstance(r1, Raised) and r1.name, isinstance(r2, Raised) and r2.name]}
        elif way == "df_missing_column":
            r1 = E.attempt(lambda: df.physt.h1("nope", edges))
            r2 = E.attempt(lambda: df.physt.histogram(["alpha", "nope"], bins=e2))
            return {"refused": [isinstance(r1, Raised) and r1.name, isinstance(r2, Raised) and r2.name]}
        else:
            H1 = E.mod("physt.histogram1d").Histogram1D
            h = H1(edges, np.asarray(x["f"], dtype=int), name="nm")
            if way == "index_roundtrip":
                ix = cp.binning_to_index(h.binning, name="nm")
                b2 = cp.index_to_binning(ix)
                return {"left": list(np.asarray(ix.left.values).tolist()), "right": list(np.asarray(ix.right.values).tolist()), "closed": ix.closed, "name": ix.name,
                        "bins_back": b2.bins.tolist(), "cls": type(b2).__name__}
            if way == "to_dataframe":
                d = h.to_dataframe()
                return {"freq": np.asarray(d["frequency"].values).tolist(), "err": np.asarray(d["error"].values).tolist(),
                        "left": np.asarray(d.index.left.values).tolist(), "right": np.asarray(d.index.right.values).tolist()}
            if way == "to_series":
                s_ = h.to_series()
                return {"freq": np.asarray(s_.values).tolist(), "name": s_.name, "left": np.asarray(s_.index.left.values).tolist(), "right": np.asarray(s_.index.right.values).tolist()}
            if way == "index_right_closed":
                ix = pd.IntervalIndex.from_arrays(np.asarray([0.0, 1.0]), np.asarray([1.0, 2.0]), closed="right")
            else:
                ix = pd.IntervalIndex.from_arrays(np.asarray([0.0, 0.5]), np.asarray([1.0, 2.0]), closed="left")
            r = E.attempt(cp.index_to_binning, ix)
            return {"refused": [isinstance(r, Raised) and r.name]}
        return {"got": {"raised": got} if isinstance(got, Raised) else full(E, got), "ref": {"raised": ref} if isinstance(ref, Raised) else full(E, ref)}

    def oracle(self, cx, p, x, obs):
        yield "no_harness_exception", obs.get("raised") is None
        if obs.get("raised") is not None:
            return
        way = p["way"]
        e = [cx.t(t) for t in x["e"]]
        if "refused" in obs:
            yield "refused", all(r in ("ValueError", "TypeError", "AttributeError", "KeyError") for r in obs["refused"])
            return
        if way == "index_roundtrip":
            yield "interval_index", z3.And([cx.eq(obs["left"][j], e[j]) for j in range(2)] + [cx.eq(obs["right"][j], e[j + 1]) for j in range(2)]) if len(obs["left"]) == 2 else False
            yield "closed_left_named", obs["closed"] == "left" and obs["name"] == "nm"
            yield "binning_back", z3.And([z3.And(cx.t(bn[0]) == e[j], cx.t(bn[1]) == e[j + 1]) for j, bn in enumerate(obs["bins_back"])]) if len(obs["bins_back"]) == 2 else False
            return
        if way in ("to_dataframe", "to_series"):
            f = [cx.t(t) for t in x["f"]]
            yield "frequencies", z3.And([cx.eq(obs["freq"][j], f[j]) for j in range(2)])
            yield "intervals", z3.And([cx.eq(obs["left"][j], e[j]) for j in range(2)] + [cx.eq(obs["right"][j], e[j + 1]) for j in range(2)])
            if way == "to_dataframe":
                yield "errors", z3.And([z3.And(cx.t(obs["err"][j]) >= 0, cx.t(obs["err"][j]) * cx.t(obs["err"][j]) == f[j]) for j in range(2)])
            return
        yield "array_reference_ok", "raised" not in obs["ref"]
        yield "container_accepted", "raised" not in obs["got"]
        if "raised" in obs["got"] or "raised" in obs["ref"]:
            return
        g, r = dict(obs["got"]), dict(obs["ref"])
        names = {"h1_series": ["alpha"], "accessor_h1": ["alpha"], "h1_series_weights": ["alpha"], "series_int": ["alpha"], "h1_series_named_override": ["given"],
                 "df_h1_column": ["alpha"], "df_h1_weight_column": ["alpha"]}.get(way, ["alpha", "beta"])
        yield "axis_names_from_container", g["axis_names"] == names
        g["axis_names"] = r["axis_names"]
        g["meta_keys"], r["meta_keys"] = [], []
        yield "same_as_array", same_snapshot(cx, g, r)


@register
class C17DaskXarray(Harness):
    prop = "C17"
    group = "daskxarray"
    stubs = ("dask replaced (symbolic world) by the graph protocol: Array = named list of chunks, dask.get evaluates (callable, *args) tasks with key substitution; scheduling itself is not modelled",
             "xarray replaced (symbolic world) by passive DataArray / Dataset containers")
    bounds_doc = "physt.compat.dask.h1 over N=3 symbolic values (within +-2 widths of a symbolic width) for every chunk size 1..3 and compute methods None / 'thread': equals the adaptive fixed-width h1 of the whole array; to_xarray / from_xarray round trip of a 1D histogram (bins, contents, errors2, under/overflow, keep_missed, metadata)"

    def instances(self, tier):
        for chunks in ((1, 2) if tier == "quick" else (1, 2, 3)):
            for method in ((None,) if tier == "quick" and chunks == 2 else (None, "thread")):
                yield f"dask-h1-c{chunks}-{method}", dict(way="dask", chunks=chunks, method=method, N=2 if tier == "quick" else 3)
        yield "dask-bad-method", dict(way="dask_bad", chunks=2, method="nope", N=2)
        yield "dask-nonadaptive-refused", dict(way="dask_nonadaptive", chunks=2, method=None, N=2)
        yield "xarray-roundtrip", dict(way="xarray")

    def declare(self, cx, p):
        x = {"v": cx.reals("v", p.get("N", 2)), "w": cx.pyfloat("w"), "e": declare_edges(cx, "e", 2), "f": cx.ints("f", 2, 0, 50), "q": cx.ints("q", 2, 0, 50), "u": cx.int("u", 0, 9), "o": cx.int("o", 0, 9)}
        if cx.sym:
            cx.assume(x["w"] >= 0.125, x["w"] <= 64)
            for v in x["v"]:
                cx.assume(v >= -2 * x["w"], v < 2 * x["w"])
        return x

    def witness_hints(self, cx, p, x):
        return [[cx.t(x["w"]) == 1] + [z3.ToReal(z3.ToInt(cx.t(v) * 8)) == cx.t(v) * 8 for v in x["v"]]]

    def drive(self, E, p, x):
        np = E.np
        way = p["way"]
        if way == "xarray":
            H1 = E.mod("physt.histogram1d").Histogram1D
            E.mod("physt.compat.xarray")
            h = H1(np.asarray(x["e"]), np.asarray(x["f"], dtype=int), np.asarray(x["q"], dtype=int), underflow=x["u"], overflow=x["o"], name="nm", axis_name="ax", custom="c")
            ds = h.to_xarray()
            g = E.attempt(H1.from_xarray, ds)
            return {"orig": full(E, h), "back": {"raised": g} if isinstance(g, Raised) else full(E, g),
                    "vars": sorted(ds.data_vars.keys()), "attrs_missed": [ds.attrs.get("underflow"), ds.attrs.get("overflow"), ds.attrs.get("keep_missed")]}
        dask = E.mod("dask")
        E.mod("dask.array")
        cd = E.mod("physt.compat.dask")
        fac = E.mod("physt._facade")
        data = np.asarray(list(x["v"]), dtype=float)
        darr = dask.array.from_array(data, chunks=p["chunks"])
        if way == "dask_bad":
            r = E.attempt(cd.h1, darr, "fixed_width", bin_width=x["w"], dask_method="nope")
            return {"refused": [isinstance(r, Raised) and r.name]}
        if way == "dask_nonadaptive":
            r = E.attempt(cd.h1, darr, "fixed_width", bin_width=x["w"], adaptive=False)
            return {"refused": [isinstance(r, Raised) and r.name]}
        got = E.attempt(cd.h1, darr, "fixed_width", bin_width=x["w"], dask_method=p["method"])
        ref = E.attempt(fac.h1, data, "fixed_width", bin_width=x["w"], adaptive=True)
        return {"got": {"raised": got} if isinstance(got, Raised) else full(E, got), "ref": {"raised": ref} if isinstance(ref, Raised) else full(E, ref)}

    def oracle(self, cx, p, x, obs):
        yield "no_harness_exception", obs.get("raised") is None
        if obs.get("raised") is not None:
            return
        if "refused" in obs:
            yield "refused", all(r in ("ValueError", "TypeError") for r in obs["refused"])
            return
        if p["way"] == "xarray":
            yield "variables", obs["vars"] == ["bins", "errors2", "frequencies"]
            yield "missed_in_attrs", z3.And(cx.eq(obs["attrs_missed"][0], cx.t(x["u"])), cx.eq(obs["attrs_missed"][1], cx.t(x["o"])), z3.BoolVal(obs["attrs_missed"][2] is True))
            yield "from_xarray_ok", "raised" not in obs["back"]
            if "raised" not in obs["back"]:
                g, r = dict(obs["back"]), dict(obs["orig"])
                g["stats"], r["stats"] = [], []   # statistics are documented as not (yet) exported
                yield "roundtrip_identical", same_snapshot(cx, g, r)
            return
        yield "array_reference_ok", "raised" not in obs["ref"]
        yield "container_accepted", "raised" not in obs["got"]
        if "raised" in obs["got"] or "raised" in obs["ref"]:
            return
        g, r = dict(obs["got"]), dict(obs["ref"])
        g["meta_keys"], r["meta_keys"] = [], []
        g["stats"], r["stats"] = [], []
        yield "same_as_array", same_snapshot(cx, g, r)
        yield "total", cx.eq(obs["got"]["freq"] and zsum_list(cx, obs["got"]["freq"]), z3.IntVal(3)) if False else True


def zsum_list(cx, a):
    return sum(cx.t(v) for v in a)
