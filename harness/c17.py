"""C17 - every supported input container gives the same histogram as its array (generic containers; see DESIGN for the rest)."""
from __future__ import annotations

import z3

from symx.api import Harness, Raised, register

from .c12 import full, same_snapshot
from .common import declare_edges


class Named(list):
    """A list with a name (what extract_axis_name looks at: any object with a .name attribute)."""

    def __init__(self, items, name):
        super().__init__(items)
        self.name = name


FORMS_1D = ["list", "tuple", "generator", "iterator", "nested_list", "array2d", "range_like", "named_list"]
FORMS_ND = ["list_of_rows", "tuple_of_rows", "list_of_tuples", "h2_lists", "h2_tuple_array", "h3_lists", "h3_arrays", "fill_n_columns"]


@register
class C17Generic1D(Harness):
    prop = "C17"
    group = "generic1d"
    bounds_doc = "h1 over N=4 NaN-able symbolic values given as list / tuple / generator / iterator / nested list / 2-D array / named list, weights as list / tuple / array (same nesting), dropna on/off: identical to h1 of the flat numpy array; scalars, strings, ragged nestings, mismatching weights refused"

    def instances(self, tier):
        for form in FORMS_1D:
            for wk in ("none", "list", "array"):
                if form == "range_like" and wk != "none":
                    continue
                yield f"c1d-{form}-w{wk}", dict(form=form, weights=wk, bad=None)
        for bad in ("scalar", "string", "ragged", "weights_short", "weights_2d_for_1d", "none_with_bins", "dict"):
            yield f"c1d-bad-{bad}", dict(form="list", weights="none", bad=bad)
        yield "c1d-nan-dropna-off", dict(form="list", weights="none", bad="nan_no_dropna")

    def declare(self, cx, p):
        x = {"v": cx.reals("v", 2, nan=(p["form"] != "range_like")), "w": cx.ints("w", 2, 0, 5), "e": declare_edges(cx, "e", 2)}
        if cx.sym and p["form"] == "range_like":
            pass
        return x

    def _container(self, E, p, vals):
        np = E.np
        f = p["form"]
        if f == "list":
            return list(vals)
        if f == "tuple":
            return tuple(vals)
        if f == "generator":
            return (v for v in vals)
        if f == "iterator":
            return iter(list(vals))
        if f == "nested_list":
            return [[vals[0]], [vals[1]]]
        if f == "array2d":
            return np.asarray([[vals[0]], [vals[1]]], dtype=float)
        if f == "named_list":
            return Named(vals, "col")
        return range(2)

    def drive(self, E, p, x):
        np = E.np
        h1 = E.mod("physt._facade").h1
        edges = np.asarray(x["e"])
        bad = p["bad"]
        if bad:
            args = {"scalar": (5,), "string": ("abc",), "ragged": ([[x["v"][0], x["v"][1]], [x["v"][0]]],), "dict": ({"a": 1},), "none_with_bins": (None,),
                    "weights_short": (list(x["v"]),), "weights_2d_for_1d": (list(x["v"]),), "nan_no_dropna": (list(x["v"]),)}[bad]
            kw = {}
            if bad == "weights_short":
                kw["weights"] = [1, 2, 3]
            if bad == "weights_2d_for_1d":
                kw["weights"] = [[1], [3]]
            if bad == "nan_no_dropna":
                kw["dropna"] = False
            r = E.attempt(h1, args[0], edges, **kw)
            return {"res": {"raised": r} if isinstance(r, Raised) else full(E, r)}
        vals = list(x["v"]) if p["form"] != "range_like" else [0.0, 1.0]
        nested = p["form"] in ("nested_list", "array2d")
        kw, kw_ref = {}, {}
        if p["weights"] != "none":
            ws = list(x["w"])
            shaped = [[ws[0]], [ws[1]]] if nested else ws
            kw["weights"] = shaped if p["weights"] == "list" else np.asarray(shaped)
            kw_ref["weights"] = np.asarray(ws)
        got = E.attempt(h1, self._container(E, p, vals), edges, **kw)
        ref = E.attempt(h1, np.asarray(vals, dtype=float), edges, **kw_ref)
        return {"got": {"raised": got} if isinstance(got, Raised) else full(E, got), "ref": {"raised": ref} if isinstance(ref, Raised) else full(E, ref)}

    def oracle(self, cx, p, x, obs):
        yield "no_harness_exception", obs.get("raised") is None
        if obs.get("raised") is not None:
            return
        bad = p["bad"]
        if bad == "none_with_bins":
            yield "none_gives_empty_histogram", "raised" not in obs["res"] and z3.And([cx.eq(v, 0) for v in obs["res"]["freq"]]) is not None
            return
        if bad == "nan_no_dropna":
            anynan = z3.Or([cx.isnan(v) for v in x["v"]])
            yield "nan_without_dropna_refused", z3.BoolVal("raised" in obs["res"]) == anynan
            return
        if bad:
            yield "refused", "raised" in obs["res"] and obs["res"]["raised"].name in ("ValueError", "TypeError")
            return
        yield "array_reference_ok", "raised" not in obs["ref"]
        yield "container_accepted", "raised" not in obs["got"]
        if "raised" in obs["got"] or "raised" in obs["ref"]:
            return
        g, r = dict(obs["got"]), dict(obs["ref"])
        if p["form"] == "named_list":
            yield "axis_name_from_container", g["axis_names"] == ["col"]
            g["axis_names"] = r["axis_names"]
            g["meta_keys"], r["meta_keys"] = [], []
        if p["form"].startswith(("h2", "h3")):
            # unnamed columns give axis names (None, None); the array gives the defaults - names are checked separately
            g["axis_names"] = r["axis_names"]
        yield "same_as_array", same_snapshot(cx, g, r)


@register
class C17GenericND(Harness):
    prop = "C17"
    group = "genericnd"
    bounds_doc = "h / h2 / h3 / fill_n(columns=True) over N=2 rows of NaN-able symbolic values given as list of rows, tuple of rows, list of tuples, separate column lists / arrays: identical to h of the (n, d) numpy array incl. NaN rows dropped with their weights; 1-D data, unequal column lengths, wrong weight length refused; explicit axis names and names taken from named columns"

    def instances(self, tier):
        for form in FORMS_ND:
            for wk in ("none", "list"):
                yield f"cnd-{form}-w{wk}", dict(form=form, weights=wk, bad=None)
        for bad in ("one_dim", "unequal_columns", "weights_len", "ragged_rows", "axis_names_len"):
            yield f"cnd-bad-{bad}", dict(form="list_of_rows", weights="none", bad=bad)
        yield "cnd-named-columns", dict(form="h2_named", weights="none", bad=None)

    def declare(self, cx, p):
        d = 3 if p["form"].startswith("h3") else 2
        return {"x": [[cx.real(f"x{i}_{k}", nan=True) for k in range(d)] for i in range(2)], "w": cx.ints("w", 2, 0, 5),
                "e": [declare_edges(cx, f"e{k}_", 2 if k == 0 else 1) for k in range(d)]}

    def drive(self, E, p, x):
        np = E.np
        fac = E.mod("physt._facade")
        rows = x["x"]
        d = len(rows[0])
        bins = [np.asarray(e) for e in x["e"]]
        arr = np.asarray(rows, dtype=float).reshape((2, d))
        kw, kw_ref = {}, {}
        if p["weights"] == "list":
            kw["weights"] = list(x["w"])
            kw_ref["weights"] = np.asarray(x["w"])
        bad = p["bad"]
        if bad:
            if bad == "one_dim":
                r = E.attempt(fac.h, [rows[0][0], rows[1][0]], bins)
            elif bad == "unequal_columns":
                r = E.attempt(fac.h2, [rows[0][0], rows[1][0]], [rows[0][1]], bins)
            elif bad == "weights_len":
                r = E.attempt(fac.h, arr, bins, weights=[1, 2, 3])
            elif bad == "ragged_rows":
                r = E.attempt(fac.h, [[rows[0][0], rows[0][1]], [rows[1][0]]], bins)
            else:
                r = E.attempt(fac.h, arr, bins, axis_names=["only_one"])
            return {"res": {"raised": r} if isinstance(r, Raised) else full(E, r)}
        f = p["form"]
        cols = [[rows[0][k], rows[1][k]] for k in range(d)]
        ref = E.attempt(fac.h, arr, bins, **kw_ref)
        if f == "list_of_rows":
            got = E.attempt(fac.h, [list(r) for r in rows], bins, **kw)
        elif f == "tuple_of_rows":
            got = E.attempt(fac.h, tuple(tuple(r) for r in rows), bins, **kw)
        elif f == "list_of_tuples":
            got = E.attempt(fac.h, [tuple(r) for r in rows], bins, **kw)
        elif f == "h2_lists":
            got = E.attempt(fac.h2, cols[0], cols[1], bins, **kw)
        elif f == "h2_tuple_array":
            got = E.attempt(fac.h2, tuple(cols[0]), np.asarray(cols[1], dtype=float), bins, **kw)
        elif f == "h2_named":
            got = E.attempt(fac.h2, Named(cols[0], "first"), Named(cols[1], "second"), bins, **kw)
        elif f == "h3_lists":
            got = E.attempt(fac.h3, [np.asarray(c, dtype=float) for c in cols], bins, **kw)
        elif f == "h3_arrays":
            got = E.attempt(fac.h3, arr, bins, **kw)
        else:
            nd = E.mod("physt.histogram_nd")
            cls = nd.Histogram2D
            SB = E.mod("physt.binnings").StaticBinning
            mk = lambda: cls([SB(np.asarray([[x["e"][k][j], x["e"][k][j + 1]] for j in range(len(x["e"][k]) - 1)])) for k in range(d)])  # noqa: E731
            a, b = mk(), mk()
            r1 = E.attempt(a.fill_n, [cols[0], cols[1]], columns=True, **kw)
            r2 = E.attempt(b.fill_n, arr, **kw_ref)
            got = a if not isinstance(r1, Raised) else r1
            ref = b if not isinstance(r2, Raised) else r2
        return {"got": {"raised": got} if isinstance(got, Raised) else full(E, got), "ref": {"raised": ref} if isinstance(ref, Raised) else full(E, ref)}

    def oracle(self, cx, p, x, obs):
        yield "no_harness_exception", obs.get("raised") is None
        if obs.get("raised") is not None:
            return
        if p["bad"]:
            yield "refused", "raised" in obs["res"] and obs["res"]["raised"].name in ("ValueError", "TypeError")
            return
        yield "array_reference_ok", "raised" not in obs["ref"]
        yield "container_accepted", "raised" not in obs["got"]
        if "raised" in obs["got"] or "raised" in obs["ref"]:
            return
        g, r = dict(obs["got"]), dict(obs["ref"])
        if p["form"] == "h2_named":
            yield "axis_names_from_columns", g["axis_names"] == ["first", "second"]
            g["axis_names"] = r["axis_names"]
        g["meta_keys"], r["meta_keys"] = [], []
        if p["form"].startswith(("h2", "h3")):
            # unnamed columns give axis names (None, None); the array gives the defaults - names are checked separately
            g["axis_names"] = r["axis_names"]
        yield "same_as_array", same_snapshot(cx, g, r)
