"""C09 - projections are exact marginals (plus T, accumulate, refusals)."""
from __future__ import annotations

import itertools

import z3

from symx.api import Harness, Raised, register

from .common import declare_cells, declare_edges, getcell, nested, product_indices, snap1d, snapnd, zsum

NAMES = ["a", "b", "c", "d"]


def _snap(E, h):
    d = snap1d(E, h) if h.ndim == 1 else snapnd(E, h)
    d["cls"] = type(h).__name__
    d["ndim"] = h.ndim
    d["name"] = h.name
    if h.ndim == 1:
        d["axis_names"] = [h.axis_name]
        d["bins"] = [d["bins"]]
        d["edges"], d["geom"] = [d["edges"]], "nd"
    return d


SPECIAL = {
    # class, axis names, concrete edges per axis (valid ranges), projection class map
    "spherical": ("SphericalHistogram", ["r", "theta", "phi"], [[0.0, 1.0, 2.0], [0.0, 1.5, 3.0], [0.0, 3.0, 6.0]], {(1, 2): "SphericalSurfaceHistogram", (0,): "RadialHistogram"}),
    "cylindrical": ("CylindricalHistogram", ["rho", "phi", "z"], [[0.0, 1.0, 2.0], [0.0, 3.0, 6.0], [-1.0, 0.0, 1.0]],
                    {(0,): "RadialHistogram", (1,): "AzimuthalHistogram", (0, 1): "PolarHistogram", (1, 2): "CylindricalSurfaceHistogram"}),
}


def np_(E):
    return E.np


def _mk(E, p, x):
    np = E.np
    nd = E.mod("physt.histogram_nd")
    shape = p["shape"]
    D = len(shape)
    if p.get("special"):
        sp = E.mod("physt.special_histograms")
        cname, _, edges, _ = SPECIAL[p["special"]]
        return getattr(sp, cname)([np.asarray(e) for e in edges], np.asarray(nested(x["f"], shape), dtype=float), errors2=np.asarray(nested(x["q"], shape), dtype=float), name="parent")
    cls = nd.Histogram2D if D == 2 else nd.HistogramND
    dt = p.get("dtype") or (int if p["kind"] == "int" else float)
    f = np.asarray(nested(x["f"], shape), dtype=dt)
    e2 = np.asarray(nested(x["q"], shape), dtype=dt)
    kw = {"missed": x["m"]} if "m" in x else {}
    names = p.get("names") or NAMES[:D]
    return cls([np.asarray(x["e"][k]) for k in range(D)], f, errors2=e2, axis_names=names, name="parent", **kw)


@register
class C09Projection(Harness):
    prop = "C09"
    group = "projection"
    bounds_doc = "ND histograms with symbolic contents/errors2/edges, shapes up to 2x3x2 and 2x1x2x2; every non-empty proper axis subset by index and by name, in given orders; chains of two projections"

    def instances(self, tier):
        shapes = [(2, 3), (2, 1, 2), (1, 2, 1, 2)] if tier == "quick" else [(2, 3), (3, 1), (2, 3, 2), (2, 1, 2), (2, 1, 2, 2), (1, 2, 2, 1)]
        for shape in shapes:
            D = len(shape)
            for r in range(1, D):
                for axes in itertools.permutations(range(D), r):
                    if tier == "quick" and list(axes) != sorted(axes) and r > 1 and axes != tuple(reversed(sorted(axes))):
                        continue
                    for by in ("index", "name"):
                        if by == "name" and tier == "quick" and r > 1:
                            continue
                        yield (f"proj-S{'x'.join(map(str, shape))}-{by}-{''.join(map(str, axes))}",
                               dict(shape=list(shape), axes=list(axes), by=by, kind="real" if (sum(axes) % 2) else "int", chain=None))
        # coordinate-transformed parents: axis subsets without a dedicated special class fall back to the ordinary 1D / 2D classes
        for special in ("spherical", "cylindrical"):
            for axes in ((0,), (1,), (2,), (0, 1), (0, 2), (1, 2)):
                yield f"proj-{special}-{''.join(map(str, axes))}", dict(shape=[2, 2, 2], axes=list(axes), by="name" if len(axes) == 1 else "index", kind="real", chain=None, special=special)
        # partially named axes: an unnamed axis in front of the requested name
        yield "proj-S2x1x2-names-None-y-z", dict(shape=[2, 1, 2], axes=[2], by="name", kind="int", chain=None, names=[None, "y", "z"])
        yield "proj-S2x1x2-names-empty-y-z-pair", dict(shape=[2, 1, 2], axes=[1, 2], by="name", kind="int", chain=None, names=["", "y", "z"])
        # narrow integer parents: marginal sums may exceed the parent's own type (numpy's sum widens to int64)
        for dt in ("int16", "int32"):
            yield f"proj-S2x3-{dt}-0", dict(shape=[2, 3], axes=[0], by="index", kind="int", chain=None, dtype=dt)
            yield f"proj-S2x2x2-{dt}-02", dict(shape=[2, 2, 2], axes=[0, 2], by="index", kind="int", chain=None, dtype=dt)
            if D >= 3:
                for first in itertools.combinations(range(D), D - 1):
                    for second in range(D - 1):
                        if tier == "quick" and (first[0] != 0 or second != 1):
                            continue
                        yield (f"chain-S{'x'.join(map(str, shape))}-{''.join(map(str, first))}-{second}",
                               dict(shape=list(shape), axes=list(first), by="index", kind="real", chain=second))

    def declare(self, cx, p):
        shape = p["shape"]
        if p.get("dtype"):
            lim = 2 ** (int(p["dtype"][3:]) - 1) - 1
            n = 1
            for s_ in shape:
                n *= s_
            return {"f": cx.ints("f", n, 0, lim), "q": cx.ints("q", n, 0, lim), "e": [declare_edges(cx, f"e{k}_", shape[k]) for k in range(len(shape))]}
        x = {"f": declare_cells(cx, "f", shape, p["kind"]), "q": declare_cells(cx, "q", shape, p["kind"]),
             "e": [declare_edges(cx, f"e{k}_", shape[k]) for k in range(len(shape))] if not p.get("special") else [list(e) for e in SPECIAL[p["special"]][2]]}
        return x

    def drive(self, E, p, x):
        h = _mk(E, p, x)
        before = _snap(E, h)
        names = SPECIAL[p["special"]][1] if p.get("special") else (p.get("names") or NAMES)
        axes = [names[a] for a in p["axes"]] if p["by"] == "name" else list(p["axes"])
        pr = E.attempt(h.projection, *axes)
        if isinstance(pr, Raised):
            return {"raised": pr}
        obs = {"proj": _snap(E, pr), "parent_before": before, "parent_after": _snap(E, h),
               "shares": any(a is b for a in pr._binnings for b in h._binnings) or bool(np_(E).shares_memory(pr.frequencies, h.frequencies))}
        if p["chain"] is not None:
            pr2 = E.attempt(pr.projection, p["chain"])
            obs["chain"] = _snap(E, pr2) if not isinstance(pr2, Raised) else {"raised": pr2}
            kept = sorted(p["axes"])[p["chain"]]
            direct = E.attempt(h.projection, kept)
            obs["direct"] = _snap(E, direct) if not isinstance(direct, Raised) else {"raised": direct}
        return obs

    def oracle(self, cx, p, x, obs):
        shape = p["shape"]
        D = len(shape)
        yield "no_exception", obs.get("raised") is None
        if obs.get("raised") is not None:
            return
        kept = sorted(p["axes"])
        f = {idx: cx.t(v) for idx, v in zip(product_indices(shape), x["f"])}
        q = {idx: cx.t(v) for idx, v in zip(product_indices(shape), x["q"])}
        pr = obs["proj"]
        kshape = [shape[k] for k in kept]

        def marg(src, kidx, keep):
            return zsum(v for idx, v in src.items() if all(idx[k] == kidx[i] for i, k in enumerate(keep)))

        yield "shape", pr["shape"] == kshape
        yield "shares_nothing_with_parent", obs["shares"] is False
        yield "ndim", pr["ndim"] == len(kept)
        names = SPECIAL[p["special"]][1] if p.get("special") else (p.get("names") or NAMES)
        expected_cls = {1: "Histogram1D", 2: "Histogram2D"}.get(len(kept), "HistogramND")
        if p.get("special"):
            expected_cls = SPECIAL[p["special"]][3].get(tuple(kept), expected_cls)
        yield "class", pr["cls"] == expected_cls
        yield "axis_names", pr["axis_names"] == [names[k] for k in kept]
        yield "name", pr["name"] == "parent"
        if pr["shape"] != kshape:
            return
        for kidx in product_indices(kshape):
            tag = ",".join(map(str, kidx))
            yield f"content[{tag}]", cx.eq(getcell(pr["freq"], kidx), marg(f, kidx, kept))
            yield f"err2[{tag}]", cx.eq(getcell(pr["err2"], kidx), marg(q, kidx, kept))
        for i, k in enumerate(kept):
            e = [cx.t(t) for t in x["e"][k]]
            ok = [z3.And(cx.t(pr["bins"][i][j][0]) == e[j], cx.t(pr["bins"][i][j][1]) == e[j + 1]) for j in range(shape[k])]
            yield f"bins[{i}]", z3.And(ok)
        yield "total", cx.eq(pr["total"], zsum(f.values()))
        pb, pa = obs["parent_before"], obs["parent_after"]
        same = [cx.t(getcell(pb["freq"], idx)) == cx.t(getcell(pa["freq"], idx)) for idx in product_indices(shape)]
        same += [cx.t(getcell(pb["err2"], idx)) == cx.t(getcell(pa["err2"], idx)) for idx in product_indices(shape)]
        yield "parent_unchanged", z3.And(same + [z3.BoolVal(pb["axis_names"] == pa["axis_names"] and pb["shape"] == pa["shape"])])
        if p["chain"] is not None:
            ch, di = obs["chain"], obs["direct"]
            yield "chain_no_exception", "raised" not in ch and "raised" not in di
            if "raised" in ch or "raised" in di:
                return
            k = kept[p["chain"]]
            yield "chain_axis", ch["axis_names"] == [NAMES[k]] == di["axis_names"]
            for j in range(shape[k]):
                ref = marg(f, (j,), [k])
                ref2 = marg(q, (j,), [k])
                yield f"chain_content[{j}]", z3.And(cx.eq(ch["freq"][j], ref), cx.eq(di["freq"][j], ref))
                yield f"chain_err2[{j}]", z3.And(cx.eq(ch["err2"][j], ref2), cx.eq(di["err2"][j], ref2))


@register
class C09Misc(Harness):
    prop = "C09"
    group = "misc"
    bounds_doc = "Histogram2D.T / T.T, accumulate along each axis (shapes 2x3, 2x2x2), refusals: empty, duplicate, unknown (index / name / out of range) axis lists"

    def instances(self, tier):
        yield "T-S2x3", dict(shape=[2, 3], op="T", kind="real")
        yield "T-S3x1", dict(shape=[3, 1], op="T", kind="int")
        for shape in ([(2, 3), (2, 2, 2)] if tier == "quick" else [(2, 3), (3, 2), (2, 2, 2), (1, 3, 2)]):
            for ax in range(len(shape)):
                yield f"acc-S{'x'.join(map(str, shape))}-{ax}", dict(shape=list(shape), op="acc", axis=ax, kind="real" if ax else "int")
        for bad in (["empty"], ["dup"], ["range"], ["neg"], ["name"], ["type"]):
            yield f"bad-{bad[0]}", dict(shape=[2, 2, 1], op="bad", bad=bad[0], kind="int")

    def declare(self, cx, p):
        shape = p["shape"]
        x = {"f": declare_cells(cx, "f", shape, p["kind"]), "q": declare_cells(cx, "q", shape, p["kind"]),
             "e": [declare_edges(cx, f"e{k}_", shape[k]) for k in range(len(shape))]}
        if p["op"] == "T":
            x["m"] = cx.int("m", 0, 1000)
        return x

    def drive(self, E, p, x):
        h = _mk(E, p, x)
        if p["op"] == "T":
            t = h.T
            shares = bool(E.np.shares_memory(t.frequencies, h.frequencies)) or bool(E.np.shares_memory(t.errors2, h.errors2)) or any(a is b for a in t._binnings for b in h._binnings)
            obs = {"T": _snap(E, t), "TT": _snap(E, t.T), "TT_eq": bool(t.T == h), "parent": _snap(E, h), "T_shares": shares, "T_distinct": h.T is not t}
            # the source changes afterwards (scaled in place): a transposition taken now shows the new contents, the earlier one the old
            h *= 2
            obs["T_after_change"] = _snap(E, h.T)
            obs["T_earlier_after_change"] = _snap(E, t)
            return obs
        if p["op"] == "acc":
            a = E.attempt(h.accumulate, p["axis"])
            a2 = E.attempt(h.accumulate, NAMES[p["axis"]])
            return {"acc": _snap(E, a) if not isinstance(a, Raised) else {"raised": a},
                    "acc_name": _snap(E, a2) if not isinstance(a2, Raised) else {"raised": a2}, "parent": _snap(E, h)}
        args = {"empty": [], "dup": [0, 0], "range": [3], "neg": [-1], "name": ["zzz"], "all": [0, 1, 2], "type": [1.5]}[p["bad"]]
        r = E.attempt(h.projection, *args)
        return {"res": {"raised": r} if isinstance(r, Raised) else {"cls": type(r).__name__, "ndim": r.ndim}, "parent": _snap(E, h)}

    def oracle(self, cx, p, x, obs):
        shape = p["shape"]
        idxs = product_indices(shape)
        f = {idx: cx.t(v) for idx, v in zip(idxs, x["f"])}
        q = {idx: cx.t(v) for idx, v in zip(idxs, x["q"])}
        if p["op"] == "T":
            t, tt = obs["T"], obs["TT"]
            dims = lambda a: [len(a), len(a[0]) if a and isinstance(a[0], list) else 0]  # noqa: E731
            ok = dims(t["freq"]) == shape[::-1] == dims(t["err2"]) and dims(tt["freq"]) == shape == dims(tt["err2"])
            yield "T_array_shapes", ok
            if not ok:
                return
            yield "T_shape", t["shape"] == shape[::-1]
            yield "T_names", t["axis_names"] == NAMES[:2][::-1]
            yield "T_contents", z3.And([cx.eq(t["freq"][j][i], f[(i, j)]) for (i, j) in idxs] + [cx.eq(t["err2"][j][i], q[(i, j)]) for (i, j) in idxs])
            e = [[cx.t(v) for v in x["e"][k]] for k in range(2)]
            yield "T_bins", z3.And([z3.And(cx.t(t["bins"][1 - k][j][0]) == e[k][j], cx.t(t["bins"][1 - k][j][1]) == e[k][j + 1])
                                    for k in range(2) for j in range(shape[k])])
            yield "TT_contents", z3.And([cx.eq(tt["freq"][i][j], f[(i, j)]) for (i, j) in idxs] + [cx.eq(tt["err2"][i][j], q[(i, j)]) for (i, j) in idxs])
            yield "TT_names", tt["axis_names"] == NAMES[:2] and tt["shape"] == shape
            t2, t1 = obs["T_after_change"], obs["T_earlier_after_change"]
            yield "T_is_a_new_object_each_time", obs["T_distinct"] is True
            yield "T_follows_later_changes", z3.And([cx.eq(t2["freq"][j][i], 2 * f[(i, j)]) for (i, j) in idxs]) if dims(t2["freq"]) == shape[::-1] else False
            yield "earlier_T_keeps_its_contents", z3.And([cx.eq(t1["freq"][j][i], f[(i, j)]) for (i, j) in idxs]) if dims(t1["freq"]) == shape[::-1] else False
            yield "TT_eq", obs["TT_eq"] is True
            yield "T_shares_nothing_with_parent", obs["T_shares"] is False
            yield "T_keeps_missed", z3.And(cx.eq(t["missed"], cx.t(x["m"])), cx.eq(tt["missed"], cx.t(x["m"])), cx.eq(obs["parent"]["missed"], cx.t(x["m"])))
            yield "T_meta", t["name"] == "parent" == tt["name"] and t["dtype"] == obs["parent"]["dtype"] == tt["dtype"]
            yield "parent_unchanged", z3.And([cx.eq(getcell(obs["parent"]["freq"], idx), f[idx]) for idx in idxs])
            return
        if p["op"] == "acc":
            ax = p["axis"]
            for key in ("acc", "acc_name"):
                a = obs[key]
                yield f"{key}_no_exception", "raised" not in a
                if "raised" in a:
                    continue
                ok = []
                for idx in idxs:
                    ref = zsum(f[i2] for i2 in idxs if all(i2[k] == idx[k] for k in range(len(shape)) if k != ax) and i2[ax] <= idx[ax])
                    ok.append(cx.eq(getcell(a["freq"], idx), ref))
                yield f"{key}_prefix_sums", z3.And(ok)
                yield f"{key}_shape", a["shape"] == shape and a["axis_names"] == NAMES[:len(shape)]
            yield "parent_unchanged", z3.And([cx.eq(getcell(obs["parent"]["freq"], idx), f[idx]) for idx in idxs])
            return
        r = obs["res"]
        yield f"refused[{p['bad']}]", "raised" in r and r["raised"].name in ("ValueError", "TypeError", "IndexError", "KeyError")
        yield "parent_unchanged", z3.And([cx.eq(getcell(obs["parent"]["freq"], idx), f[idx]) for idx in idxs])


@register
class C09FromData(Harness):
    prop = "C09"
    group = "fromdata"
    bounds_doc = "h(data, bins).projection(k) vs h1(data[:, k], bins_k) for N<=2 (quick) / N<=3 rows all lying inside the bins of every axis, shapes 2x2 and 2x1x2"

    def instances(self, tier):
        for n, shape in ([(2, (2, 2)), (1, (2, 1, 2))] if tier == "quick" else [(2, (2, 2)), (3, (2, 2)), (2, (2, 1, 2)), (2, (1, 2, 2))]):
            for k in range(len(shape)):
                yield f"data-N{n}-S{'x'.join(map(str, shape))}-ax{k}", dict(N=n, shape=list(shape), axis=k)

    def declare(self, cx, p):
        shape, N = p["shape"], p["N"]
        D = len(shape)
        x = {"x": [[cx.real(f"x{i}_{k}") for k in range(D)] for i in range(N)],
             "e": [declare_edges(cx, f"e{k}_", shape[k]) for k in range(D)]}
        if cx.sym:
            for i in range(N):
                for k in range(D):
                    cx.assume(x["x"][i][k] >= x["e"][k][0], x["x"][i][k] < x["e"][k][-1])
        return x

    def drive(self, E, p, x):
        np = E.np
        fac = E.mod("physt._facade")
        D = len(p["shape"])
        data = np.asarray(x["x"], dtype=float).reshape((p["N"], D))
        h = fac.h(data, [np.asarray(x["e"][k]) for k in range(D)])
        pr = h.projection(p["axis"])
        direct = fac.h1(data[:, p["axis"]], np.asarray(x["e"][p["axis"]]))
        return {"proj": _snap(E, pr), "direct": _snap(E, direct), "missed": h.missed}

    def oracle(self, cx, p, x, obs):
        k, shape = p["axis"], p["shape"]
        e = [cx.t(t) for t in x["e"][k]]
        yield "nothing_missed", cx.eq(obs["missed"], 0)
        for j in range(shape[k]):
            ref = zsum(z3.If(z3.And(e[j] <= cx.t(x["x"][i][k]), cx.t(x["x"][i][k]) < e[j + 1]), 1, 0) for i in range(p["N"]))
            yield f"content[{j}]", z3.And(cx.eq(obs["proj"]["freq"][j], ref), cx.eq(obs["direct"]["freq"][j], ref))
            yield f"err2_same[{j}]", cx.eq(obs["proj"]["err2"][j], cx.t(obs["direct"]["err2"][j]))
        yield "same_bins", z3.And([cx.t(a[0]) == cx.t(b[0]) for a, b in zip(obs["proj"]["bins"][0], obs["direct"]["bins"][0])]
                                  + [cx.t(a[1]) == cx.t(b[1]) for a, b in zip(obs["proj"]["bins"][0], obs["direct"]["bins"][0])])
