"""C08 - JSON round trip reproduces the histogram exactly."""
from __future__ import annotations

import itertools
import math

import z3

from symx.api import Harness, Raised, register

from .c12 import flat, full, same_snapshot
from .common import declare_cells, declare_edges, nested, zsum

BINNINGS = ["static", "gapped", "numpy", "fixed", "fixed_adaptive", "exponential", "static_open"]


def binning_info(b):
    d = {"cls": type(b).__name__, "adaptive": b.is_adaptive(), "includes_right_edge": b.includes_right_edge, "bins": b.bins.tolist()}
    for attr in ("_bin_width", "_shift", "_times_min", "_bin_count", "_log_min", "_log_width"):
        if hasattr(b, attr):
            d[attr] = getattr(b, attr)
    return d


def make_binning(E, kind, x, tag):
    np = E.np
    B = E.mod("physt.binnings")
    e = x.get(tag)
    if kind == "static":
        return B.StaticBinning([[e[0], e[1]], [e[1], e[2]]])
    if kind == "static_open":
        return B.StaticBinning([[e[0], e[1]], [e[1], e[2]]], includes_right_edge=False)
    if kind == "gapped":
        return B.StaticBinning([[e[0], e[1]], [e[1] + 1, e[2] + 1]])
    if kind == "numpy":
        return B.NumpyBinning(np.asarray([e[0], e[1], e[2]]))
    if kind in ("fixed", "fixed_adaptive"):
        return B.FixedWidthBinning(bin_width=x[tag + "w"], bin_count=2, bin_times_min=x[tag + "t"], bin_shift=x[tag + "s"], adaptive=(kind == "fixed_adaptive"))
    if kind == "exponential":
        return B.ExponentialBinning(log_min=x[tag + "lm"], log_width=x[tag + "lw"], bin_count=2)
    raise ValueError(kind)


def declare_binning(cx, kind, x, tag):
    if kind in ("fixed", "fixed_adaptive"):
        x[tag + "w"], x[tag + "t"], x[tag + "s"] = cx.pyfloat(tag + "w"), cx.pyint(tag + "t", -3, 3), cx.pyfloat(tag + "s")
        if cx.sym:
            cx.assume(x[tag + "w"] > 0, x[tag + "s"] >= 0, x[tag + "s"] < x[tag + "w"])
    elif kind == "exponential":
        x[tag + "lm"], x[tag + "lw"] = cx.pyfloat(tag + "lm"), cx.pyfloat(tag + "lw")
        if cx.sym:
            cx.assume(x[tag + "lw"] > 0, x[tag + "lw"] <= 2, x[tag + "lm"] >= -3, x[tag + "lm"] <= 3)
    else:
        x[tag] = declare_edges(cx, tag, 2)


@register
class C08RoundTrip1D(Harness):
    prop = "C08"
    group = "json1d"
    stubs = ("open() in physt.io.json replaced by an in-memory file table (write-then-read returns the text written)", "json.dumps/loads replaced by a tree-level stub: loads(dumps(t)) == t with tuples->lists, keys->str, non-JSON leaves -> TypeError (textual float formatting is the stdlib's)",)
    bounds_doc = "Histogram1D (2 bins) over every binning type {static, static without right edge, gapped, numpy, fixed-width, adaptive fixed-width, exponential} x dtype {int64, float64, float32, int32} x keep_missed x (valid / NaN) missed markers x metadata; symbolic contents, errors2, under/overflow/inner missed and binning parameters"

    def instances(self, tier):
        for b in BINNINGS:
            for dt in ("int64", "float64", "float32", "int32") if tier != "quick" else ("int64", "float64"):
                for keep in (True, False):
                    for nanmiss in (False, True):
                        if nanmiss and (not keep or dt.startswith("int")):
                            continue
                        if tier == "quick" and not keep and b not in ("static", "fixed"):
                            continue
                        yield f"j1d-{b}-{dt}-k{int(keep)}-n{int(nanmiss)}", dict(binning=b, dtype=dt, keep_missed=keep, nanmiss=nanmiss)
        yield "j1d-file-static", dict(binning="static", dtype="int64", keep_missed=True, nanmiss=False, file=True)
        yield "j1d-file-fixed", dict(binning="fixed_adaptive", dtype="float64", keep_missed=True, nanmiss=False, file=True)
        yield "j1d-file-static-indent", dict(binning="static", dtype="int64", keep_missed=True, nanmiss=False, file=True, indent=2)
        yield "j1d-file-saved-twice", dict(binning="static", dtype="int64", keep_missed=True, nanmiss=False, file=True, twice=True)

    def declare(self, cx, p):
        kind = "int" if p["dtype"].startswith("int") else "real"
        x = {"f": declare_cells(cx, "f", [2], kind), "q": declare_cells(cx, "q", [2], kind)}
        for n in ("u", "o", "im"):
            x[n] = cx.int(n, 0) if kind == "int" else cx.real(n)
            if cx.sym and kind != "int":
                cx.assume(x[n] >= 0)
        if p["dtype"] == "float32":
            # binary32 rounding is not modelled: values are multiples of 1/4 below 2^20 (exact in binary32)
            for n in ("u", "o", "im"):
                x[n] = cx.int(n + "4", 0, 2 ** 22) / 4.0
            x["f"] = [cx.int(f"f4_{j}", 0, 2 ** 22) / 4.0 for j in range(2)]
            x["q"] = [cx.int(f"q4_{j}", 0, 2 ** 22) / 4.0 for j in range(2)]
        declare_binning(cx, p["binning"], x, "e")
        return x

    def drive(self, E, p, x):
        np = E.np
        H1 = E.mod("physt.histogram1d").Histogram1D
        io = E.mod("physt.io")
        b = make_binning(E, p["binning"], x, "e")
        u, o = (math.nan, math.nan) if p["nanmiss"] else (x["u"], x["o"])
        h = H1(b, np.asarray(x["f"], dtype=p["dtype"]), np.asarray(x["q"], dtype=p["dtype"]), underflow=u, overflow=o, inner_missed=x["im"], keep_missed=p["keep_missed"],
               name="the name", title="the title", axis_name="the axis", custom={"k": [1, "two", 3.5]})
        if p.get("file"):
            import os
            import tempfile

            path = os.path.join(tempfile.gettempdir(), f"symx-c08-{os.getpid()}.json")
            if p.get("twice"):
                E.attempt(h.to_json, path)      # the path already holds a document: saving again replaces it
            text = E.attempt(h.to_json, path, indent=p["indent"]) if p.get("indent") else E.attempt(h.to_json, path)
            g = E.attempt(io.load_json, path)
            if not E.sym and os.path.exists(path):
                os.remove(path)
        else:
            text = E.attempt(h.to_json)
            g = E.attempt(io.parse_json, text) if not isinstance(text, Raised) else text
        if isinstance(text, Raised):
            return {"raised": text}
        if isinstance(g, Raised):
            return {"raised": g}
        text2 = E.attempt(g.to_json)
        pj = E.mod("physt.io.json")
        tree1 = pj.json.loads(text)
        tree2 = pj.json.loads(text2) if not isinstance(text2, Raised) else None
        return {"orig": full(E, h), "parsed": full(E, g), "ob": [binning_info(h.binning)], "pb": [binning_info(g.binning)], "eq": bool(h == g),
                "missed1": [h.underflow, h.overflow, h.inner_missed], "missed2": [g.underflow, g.overflow, g.inner_missed], "tree1": tree1, "tree2": tree2}

    def oracle(self, cx, p, x, obs):
        yield from roundtrip_oracle(cx, obs)


def trees_equal(cx, a, b):
    if isinstance(a, dict) and isinstance(b, dict):
        if a.keys() != b.keys():
            return z3.BoolVal(False)
        return z3.And([trees_equal(cx, a[k], b[k]) for k in a] or [z3.BoolVal(True)])
    if isinstance(a, list) and isinstance(b, list):
        if len(a) != len(b):
            return z3.BoolVal(False)
        return z3.And([trees_equal(cx, u, v) for u, v in zip(a, b)] or [z3.BoolVal(True)])
    if isinstance(a, (dict, list)) or isinstance(b, (dict, list)):
        return z3.BoolVal(False)
    if isinstance(a, (str, bool)) or a is None or isinstance(b, (str, bool)) or b is None:
        return z3.BoolVal(type(a) is type(b) and a == b)
    fa, fb = cx.finite(a), cx.finite(b)
    if fa and fb:
        na, nb = cx.isnan(a), cx.isnan(b)
        return z3.Or(z3.And(na, nb), z3.And(z3.Not(na), z3.Not(nb), cx.t(a) == cx.t(b)))
    if not fa and not fb:
        return z3.BoolVal(repr(getattr(a, "v", a)) == repr(getattr(b, "v", b)))
    return z3.BoolVal(False)


def roundtrip_oracle(cx, obs):
    yield "no_exception", obs.get("raised") is None
    if obs.get("raised") is not None:
        return
    o, g = obs["orig"], obs["parsed"]
    yield "same_class", o["cls"] == g["cls"]
    yield "same_dtype", o["dtype"] == g["dtype"] == g["fdtype"]
    yield "same_metadata", o["name"] == g["name"] and o["title"] == g["title"] and o["axis_names"] == g["axis_names"] and o["custom"] == g["custom"] and o["meta_keys"] == g["meta_keys"]
    yield "same_keep_missed", o["keep_missed"] == g["keep_missed"]
    yield "same_adaptivity", o["adaptive"] == g["adaptive"]
    if len(flat(o["freq"])) == len(flat(g["freq"])):
        yield "same_contents", z3.And([cx.eq(b, cx.t(a)) for a, b in zip(flat(o["freq"]), flat(g["freq"]))] + [z3.BoolVal(o["fshape"] == g["fshape"])])
        yield "same_errors2", z3.And([cx.eq(b, cx.t(a)) for a, b in zip(flat(o["err2"]), flat(g["err2"]))])
    else:
        yield "same_contents", False
    yield "same_edges", trees_equal(cx, o["bins"], g["bins"])
    yield "same_missed", trees_equal(cx, obs["missed1"], obs["missed2"])
    for k, (b1, b2) in enumerate(zip(obs["ob"], obs["pb"])):
        yield f"binning_class[{k}]", b1["cls"] == b2["cls"]
        yield f"binning_right_edge[{k}]", b1["includes_right_edge"] == b2["includes_right_edge"]
        yield f"binning_adaptive[{k}]", b1["adaptive"] == b2["adaptive"]
        params = [a for a in b1 if a.startswith("_")]
        yield f"binning_params[{k}]", z3.And([trees_equal(cx, b1[a], b2.get(a)) for a in params] or [z3.BoolVal(True)])
    yield "equal_operator", obs["eq"] is True
    yield "reserialisation_identical", trees_equal(cx, obs["tree1"], obs["tree2"]) if obs["tree2"] is not None else False


@register
class C08RoundTripND(Harness):
    prop = "C08"
    group = "jsonnd"
    stubs = C08RoundTrip1D.stubs
    bounds_doc = "Histogram2D (2x2), HistogramND (2x2x2), the seven transformed classes and a HistogramCollection of 2: binning types mixed per axis, int64/float64, symbolic contents, errors2, missed"

    def instances(self, tier):
        combos = [("static", "fixed"), ("numpy", "static_open"), ("fixed_adaptive", "fixed_adaptive"), ("gapped", "exponential")]
        for bs in combos:
            for dt in ("int64", "float64"):
                if tier == "quick" and dt == "float64" and bs[0] != "static":
                    continue
                yield f"j2d-{bs[0]}-{bs[1]}-{dt}", dict(cls="Histogram2D", binnings=list(bs), dtype=dt)
        yield "j3d-static-fixed-numpy", dict(cls="HistogramND", binnings=["static", "fixed", "numpy"], dtype="int64")
        # ND histograms that do not track missed values but carry a missed weight (constructor argument / flag switched off later)
        for how in ("ctor", "toggled"):
            yield f"j2d-keep0-{how}", dict(cls="Histogram2D", binnings=["static", "fixed"], dtype="int64", keep0=how)
        yield "j3d-keep0-ctor", dict(cls="HistogramND", binnings=["static", "fixed", "numpy"], dtype="float64", keep0="ctor")
        yield "jtr-PolarHistogram-keep0", dict(cls="PolarHistogram", binnings=["static"] * 2, dtype="float64", keep0="toggled")
        for cls, nb in (("PolarHistogram", 2), ("RadialHistogram", 1), ("AzimuthalHistogram", 1), ("SphericalHistogram", 3), ("SphericalSurfaceHistogram", 2),
                        ("CylindricalHistogram", 3), ("CylindricalSurfaceHistogram", 2)):
            yield f"jtr-{cls}", dict(cls=cls, binnings=["static"] * nb, dtype="float64")
        yield "jcol", dict(cls="collection", binnings=["static"], dtype="int64")
        yield "jcol-mixed-flags", dict(cls="collection", binnings=["static"], dtype="int64", mixed="right_edge")
        yield "jcol-mixed-adaptive", dict(cls="collection", binnings=["fixed"], dtype="int64", mixed="adaptive")

    def declare(self, cx, p):
        D = len(p["binnings"])
        kind = "int" if p["dtype"].startswith("int") else "real"
        n = 2 ** D
        x = {"f": declare_cells(cx, "f", [n], kind), "q": declare_cells(cx, "q", [n], kind), "m": cx.int("m", 0) if kind == "int" else cx.real("m")}
        if cx.sym and kind != "int":
            cx.assume(x["m"] >= 0)
        for k, b in enumerate(p["binnings"]):
            declare_binning(cx, b, x, f"e{k}")
        if p["cls"] == "collection":
            x["g"] = declare_cells(cx, "g", [2], kind)
        return x

    def drive(self, E, p, x):
        np = E.np
        io = E.mod("physt.io")
        pj = E.mod("physt.io.json")
        D = len(p["binnings"])
        bins = [make_binning(E, b, x, f"e{k}") for k, b in enumerate(p["binnings"])]
        if p["cls"] == "collection":
            H1 = E.mod("physt.histogram1d").Histogram1D
            HC = E.mod("physt.histogram_collection").HistogramCollection
            a = H1(bins[0], np.asarray(x["f"][:2], dtype=p["dtype"]), name="a", axis_name="ax")
            b_binning = bins[0]
            if p.get("mixed") == "right_edge":
                b_binning = make_binning(E, "static_open", x, "e0")
            elif p.get("mixed") == "adaptive":
                b_binning = make_binning(E, "fixed_adaptive", x, "e0")
            b = H1(b_binning, np.asarray(x["g"], dtype=p["dtype"]), name="b", axis_name="ax")
            col = HC(a, b, name="col", title="tt")
            text = E.attempt(col.to_json)
            if isinstance(text, Raised):
                return {"raised": text}
            g = E.attempt(io.parse_json, text)
            if isinstance(g, Raised):
                return {"raised": g}
            return {"collection": True, "cls": type(g).__name__, "n": len(g), "eq": bool(g == col), "members": [[full(E, m1), full(E, m2)] for m1, m2 in zip(col.histograms, g.histograms)],
                    "member_binnings": [[binning_info(m1.binning), binning_info(m2.binning)] for m1, m2 in zip(col.histograms, g.histograms)],
                    "tree1": pj.json.loads(text), "tree2": pj.json.loads(g.to_json()), "names": [col.name, g.name, col.title, g.title]}
        if p["cls"] in ("Histogram2D", "HistogramND"):
            mod = E.mod("physt.histogram_nd")
        else:
            mod = E.mod("physt.special_histograms")
        cls = getattr(mod, p["cls"])
        shape = [2] * D
        f = np.asarray(nested(x["f"], shape), dtype=p["dtype"]) if D > 1 else np.asarray(x["f"], dtype=p["dtype"])
        q = np.asarray(nested(x["q"], shape), dtype=p["dtype"]) if D > 1 else np.asarray(x["q"], dtype=p["dtype"])
        if D == 1:
            h = cls(bins[0], f, q, underflow=x["m"], name="the name", title="tt", custom="c")
        else:
            kw = {"keep_missed": False} if p.get("keep0") == "ctor" else {}
            h = cls(bins, f, errors2=q, missed=x["m"], name="the name", title="tt", custom="c", **kw)
            if p.get("keep0") == "toggled":
                h.keep_missed = False
        text = E.attempt(h.to_json)
        if isinstance(text, Raised):
            return {"raised": text}
        g = E.attempt(io.parse_json, text)
        if isinstance(g, Raised):
            return {"raised": g}
        text2 = E.attempt(g.to_json)
        return {"orig": full(E, h), "parsed": full(E, g), "ob": [binning_info(b) for b in h.binnings], "pb": [binning_info(b) for b in g.binnings], "eq": bool(h == g),
                "missed1": h._missed.tolist(), "missed2": g._missed.tolist(), "tree1": pj.json.loads(text), "tree2": pj.json.loads(text2) if not isinstance(text2, Raised) else None}

    def oracle(self, cx, p, x, obs):
        if obs.get("collection"):
            yield "collection_class", obs["cls"] == "HistogramCollection" and obs["n"] == 2
            yield "collection_equal", obs["eq"] is True
            for i, (a, b) in enumerate(obs["members"]):
                yield f"member[{i}]", same_snapshot(cx, a, b)
            for i, (b1, b2) in enumerate(obs["member_binnings"]):
                yield f"member_binning[{i}]", b1["cls"] == b2["cls"] and b1["includes_right_edge"] == b2["includes_right_edge"] and b1["adaptive"] == b2["adaptive"]
            yield "collection_metadata", obs["names"][0] == obs["names"][1] and obs["names"][2] == obs["names"][3]
            yield "reserialisation_identical", trees_equal(cx, obs["tree1"], obs["tree2"])
            return
        yield from roundtrip_oracle(cx, obs)


@register
class C08Version(Harness):
    prop = "C08"
    group = "version"
    bounds_doc = "documents declaring physt_compatible = a.b.c with a, b, c symbolic in [0, 99]: refused with VersionError iff (a, b, c) > running version, through the real packaging.version comparison"

    def instances(self, tier):
        yield "version", dict()
        # the same gate with the stamp as the text it is in a document (numeric, not lexicographic order: 0.10.0 > 0.8.x, 0.8.14 > 0.8.4)
        yield "version-strings", dict(strings=["0.10.0", "0.8.14", "0.8.40", "1.0.0", "0.9.0", "0.8.5", "10.0.0", "0.8.4", "0.8.3", "0.8.04", "0.1.0", "0.08.4", "0.7.99"])

    def declare(self, cx, p):
        if p.get("strings"):
            return {}
        return {"v": [cx.pyint(n, 0, 99) for n in ("va", "vb", "vc")]}

    def drive(self, E, p, x):
        np = E.np
        H1 = E.mod("physt.histogram1d").Histogram1D
        io = E.mod("physt.io")
        ver = E.mod("physt.io.version")
        h = H1(np.asarray([0.0, 1.0, 2.0]), np.asarray([1, 2]))
        tree = h.to_dict()
        from packaging.version import Version

        if p.get("strings"):
            pj = E.mod("physt.io.json")
            cur = tuple(int(t) for t in ver.CURRENT_VERSION.split(".")[:3])
            out = []
            for vs in p["strings"]:
                text = h.to_json()
                if E.sym:
                    pj.json.tree(text)["physt_compatible"] = vs
                else:
                    import json as _json

                    d = _json.loads(text)
                    d["physt_compatible"] = vs
                    text = _json.dumps(d)
                r = E.attempt(io.parse_json, text)
                out.append(r.name if isinstance(r, Raised) else "accepted")
            return {"outcomes": out, "cur": list(cur)}
        a, b, c = x["v"]
        ver_obj = Version("1.2.3")  # placeholder; the release tuple is replaced by the (possibly symbolic) numbers
        ver_obj._release = (a, b, c)
        ver_obj._key_cache = None
        tree["physt_compatible"] = ver_obj
        r = E.attempt(io.create_from_dict, tree, "JSON")
        cur = tuple(int(t) for t in ver.CURRENT_VERSION.split(".")[:3])
        # the same document through the text entry point parse_json (the version stamp of the serialised text is replaced)
        pj = E.mod("physt.io.json")
        text = h.to_json()
        if E.sym:
            pj.json.tree(text)["physt_compatible"] = ver_obj
        else:
            import json as _json

            d = _json.loads(text)
            d["physt_compatible"] = f"{a}.{b}.{c}"
            text = _json.dumps(d)
        r2 = E.attempt(io.parse_json, text)
        return {"res": {"raised": r} if isinstance(r, Raised) else {"cls": type(r).__name__},
                "res_text": {"raised": r2} if isinstance(r2, Raised) else {"cls": type(r2).__name__}, "cur": list(cur)}

    def oracle(self, cx, p, x, obs):
        yield "no_exception", obs.get("raised") is None
        if obs.get("raised") is not None:
            return
        if p.get("strings"):
            cur = tuple(obs["cur"])
            for vs, got in zip(p["strings"], obs["outcomes"]):
                newer = tuple(int(t) for t in vs.split(".")) > cur
                yield f"version_string[{vs}]", got == ("VersionError" if newer else "accepted") or (newer and got == "Exception")
            return
        a, b, c = (cx.t(i) for i in x["v"])
        ca, cb, cc = obs["cur"]
        newer = z3.Or(a > ca, z3.And(a == ca, b > cb), z3.And(a == ca, b == cb, c > cc))
        for key, tag in (("res", ""), ("res_text", "_parse_json")):
            r = obs[key]
            if "raised" in r:
                yield "refused_only_if_newer" + tag, z3.And(newer, z3.BoolVal(r["raised"].name in ("VersionError", "Exception")))
            else:
                yield "newer_refused" + tag, z3.Not(newer)
