"""C10 - merge_bins conserves content and bin boundaries."""
from __future__ import annotations

import z3

from symx.api import Harness, Raised, register

from .common import consecutive, declare_cells, declare_edges, getcell, nested, product_indices, rising_pairs, snap1d, snapnd, tolerance_band, zsum


@register
class C10Merge1D(Harness):
    prop = "C10"
    group = "merge1d"
    bounds_doc = "1D: M<=4 (quick) / M<=5 bins with symbolic irregular edges (consecutive, or pairs with one gap), symbolic contents/errors2/underflow/overflow, amount = symbolic int in [1, M+1] (forked) or 1.5, or min_frequency = symbolic real; inplace or not; axis 0 / None / by name"

    def instances(self, tier):
        ms = (1, 2, 3, 4) if tier == "quick" else (1, 2, 3, 4, 5)
        for M in ms:
            for inplace in (False, True):
                for axis in (None, 0, "name"):
                    if tier == "quick" and axis == "name" and M != 3:
                        continue
                    yield f"amount-M{M}-i{int(inplace)}-ax{axis}", dict(M=M, mode="amount", inplace=inplace, axis=axis, gap=None, kind="int" if M % 2 else "real")
            if M >= 2:
                for g in range(M - 1):
                    if tier == "quick" and g > 0 and M > 3:
                        continue
                    yield f"amount-M{M}-gap{g}", dict(M=M, mode="amount", inplace=False, axis=None, gap=g, kind="real")
                    if M <= 3:
                        # a genuine gap that is small relative to the edges (inside is_consecutive's relative tolerance)
                        yield f"amount-M{M}-smallgap{g}", dict(M=M, mode="amount", inplace=False, axis=None, gap=g, kind="real", small=True)
                        yield f"minfreq-M{M}-smallgap{g}", dict(M=M, mode="minfreq", inplace=False, axis=None, gap=g, kind="real", small=True)
            yield f"fraction-M{M}", dict(M=M, mode="fraction", inplace=False, axis=0, gap=None, kind="int")
            if M >= 3:
                # integral amounts given as floats (2.0 merges pairs like 2 does), non-integral amounts above 2 are refused like 1.5
                yield f"amount-M{M}-float2", dict(M=M, mode="amount", inplace=False, axis=None, gap=None, kind="real", aconst=2.0)
                yield f"amount-M{M}-float3-inplace", dict(M=M, mode="amount", inplace=True, axis=0, gap=None, kind="int", aconst=3.0)
                yield f"fraction-M{M}-2.5", dict(M=M, mode="fraction", inplace=False, axis=0, gap=None, kind="real", frac=2.5)
            if M in (2, 3):
                # contents replaced through the public `frequencies` setter (floats into a histogram created with integer contents)
                yield f"amount-M{M}-setter-floats", dict(M=M, mode="amount", inplace=False, axis=None, gap=None, kind="real", via_setter=True)
            if M <= (3 if tier == "quick" else 4):
                for inplace in (False, True):
                    yield f"minfreq-M{M}-i{int(inplace)}", dict(M=M, mode="minfreq", inplace=inplace, axis=None, gap=None, kind="real")

    def declare(self, cx, p):
        M = p["M"]
        x = {"f": declare_cells(cx, "f", [M], p["kind"]), "q": declare_cells(cx, "q", [M], p["kind"]),
             "u": (cx.int("u", 0) if p["kind"] == "int" else cx.real("u")), "o": (cx.int("o", 0) if p["kind"] == "int" else cx.real("o"))}
        if cx.sym and p["kind"] != "int":
            cx.assume(x["u"] >= 0, x["o"] >= 0)
        if p["gap"] is None:
            e = declare_edges(cx, "e", M)
            x["l"], x["r"] = e[:-1], e[1:]
        else:
            x["l"], x["r"] = cx.reals("l", M), cx.reals("r", M)
            if cx.sym:
                L, R = [cx.t(i) for i in x["l"]], [cx.t(i) for i in x["r"]]
                if p.get("small"):
                    g = p["gap"]
                    ar = z3.If(R[g] >= 0, R[g], -R[g])
                    # |edge| >= 1 and 2.5e-6 |edge| <= gap <= 5e-6 |edge|: well inside the tolerance 1e-5 |edge| of is_consecutive, far above an ulp
                    cx.assume(rising_pairs(L, R), ar >= 1, L[g + 1] - R[g] >= ar / 400000, L[g + 1] - R[g] <= ar / 200000)
                else:
                    cx.assume(rising_pairs(L, R), tolerance_band(L, R))
                for j in range(M - 1):
                    cx.assume(L[j + 1] > R[j] if j == p["gap"] else L[j + 1] == R[j])
        if p["mode"] == "amount" and "aconst" not in p:
            x["a"] = cx.pyint("a", 1, M + 1)
        elif p["mode"] == "minfreq":
            x["t"] = cx.pyfloat("t")
            if cx.sym:
                cx.assume(x["t"] > 0)
        return x

    def witness_hints(self, cx, p, x):
        if not p.get("small"):
            return []
        g = p["gap"]
        # edges on integers around 2^20 with a gap of 4 (relative size 3.8e-6): exactly representable
        return [[cx.t(x["r"][g]) == 2 ** 20, cx.t(x["l"][g + 1]) == 2 ** 20 + 4] + [z3.ToReal(z3.ToInt(cx.t(v))) == cx.t(v) for v in list(x["l"]) + list(x["r"])]]

    def drive(self, E, p, x):
        np = E.np
        H1 = E.mod("physt.histogram1d").Histogram1D
        SB = E.mod("physt.binnings").StaticBinning
        dt = int if p["kind"] == "int" else float
        if p.get("via_setter"):
            h = H1(SB([[l, r] for l, r in zip(x["l"], x["r"])]), np.asarray([0] * p["M"], dtype=int), underflow=0, overflow=0, name="n", axis_name="ax")
            h.frequencies = np.asarray(x["f"], dtype=float)
            h.errors2 = np.asarray(x["q"], dtype=float)
        else:
            h = H1(SB([[l, r] for l, r in zip(x["l"], x["r"])]), np.asarray(x["f"], dtype=dt), np.asarray(x["q"], dtype=dt),
                   underflow=x["u"], overflow=x["o"], name="n", axis_name="ax")
        before = snap1d(E, h)
        kw = {"inplace": p["inplace"]}
        if p["axis"] is not None:
            kw["axis"] = "ax" if p["axis"] == "name" else p["axis"]
        if p["mode"] == "amount":
            r = E.attempt(h.merge_bins, p["aconst"] if "aconst" in p else x["a"], **kw)
        elif p["mode"] == "fraction":
            r = E.attempt(h.merge_bins, p.get("frac", 1.5), **kw)
        else:
            r = E.attempt(h.merge_bins, min_frequency=x["t"], **kw)
        obs = {"before": before, "after": snap1d(E, h)}
        if isinstance(r, Raised):
            obs["raised"] = r
        else:
            obs["res"] = snap1d(E, r)
            obs["same_object"] = r is h
            obs["meta"] = [r.name, r.axis_name]
        return obs

    def oracle(self, cx, p, x, obs):
        M = p["M"]
        f, q = [cx.t(i) for i in x["f"]], [cx.t(i) for i in x["q"]]
        L, R = [cx.t(i) for i in x["l"]], [cx.t(i) for i in x["r"]]
        raised = obs.get("raised")
        b = obs["before"]
        unchanged = lambda s: z3.And([cx.eq(s["freq"][j], f[j]) for j in range(M)] + [cx.eq(s["err2"][j], q[j]) for j in range(M)]  # noqa: E731
                                     + [cx.t(s["bins"][j][0]) == L[j] for j in range(M)] + [cx.t(s["bins"][j][1]) == R[j] for j in range(M)]
                                     + ([] if p.get("via_setter") else [cx.eq(s["under"], cx.t(x["u"])), cx.eq(s["over"], cx.t(x["o"]))])) if len(s["freq"]) == M else z3.BoolVal(False)
        if p["mode"] == "fraction":
            yield "fraction_refused", raised is not None and raised.name == "ValueError"
            yield "unchanged_after_refusal", unchanged(obs["after"])
            return
        if p["mode"] == "amount":
            a = z3.IntVal(int(p["aconst"])) if "aconst" in p else cx.t(x["a"])
            # a run crosses the gap iff bins g and g+1 fall into the same run: g // a == (g+1) // a  <=>  (g+1) % a != 0
            crosses = z3.BoolVal(False) if p["gap"] is None else ((p["gap"] + 1) % a != 0)
            if raised is not None:
                yield "refusal_only_across_gap", z3.And(crosses, z3.BoolVal(raised.name == "ValueError"))
                if not p["inplace"]:
                    yield "unchanged_after_refusal", unchanged(obs["after"])
                return
            yield "gap_crossing_refused", z3.Not(crosses)
        elif p["gap"] is not None:
            # min_frequency over gapped bins: a refusal (the threshold would need a run across the gap) or a result none of whose bins spans the gap
            if raised is not None:
                yield "refusal_kind", raised.name == "ValueError"
                yield "unchanged_after_refusal", unchanged(obs["after"])
                return
        else:
            yield "no_exception", raised is None
            if raised is not None:
                return
        res = obs["res"]
        Mn = len(res["freq"])
        nl = [cx.t(bn[0]) for bn in res["bins"]]
        nr = [cx.t(bn[1]) for bn in res["bins"]]
        if p["mode"] == "amount":
            yield "bin_count", (Mn - 1) * a < M if Mn else False
            yield "bin_count_upper", Mn * a >= M
            for k in range(Mn):
                first = [z3.And(k * a == j) for j in range(M)]
                yield f"left[{k}]", z3.And([z3.Implies(first[j], nl[k] == L[j]) for j in range(M)] + [z3.Or(first)])
                last_ix = [z3.Or((k + 1) * a - 1 == j, z3.And((k + 1) * a - 1 >= M, j == M - 1)) for j in range(M)]
                yield f"right[{k}]", z3.And([z3.Implies(last_ix[j], nr[k] == R[j]) for j in range(M)] + [z3.Or(last_ix)])
                inrun = [z3.And(j >= k * a, j < (k + 1) * a) for j in range(M)]
                yield f"content[{k}]", cx.eq(res["freq"][k], zsum(z3.If(inrun[j], f[j], 0) for j in range(M)))
                yield f"err2[{k}]", cx.eq(res["err2"][k], zsum(z3.If(inrun[j], q[j], 0) for j in range(M)))
        # general shape of any merge: unions of adjacent old bins, outer edges kept, sums conserved
        yield "outer_edges", z3.And(nl[0] == L[0], nr[-1] == R[-1]) if Mn else False
        for k in range(Mn):
            yield f"union_of_old[{k}]", z3.And(z3.Or([nl[k] == L[j] for j in range(M)]), z3.Or([nr[k] == R[j] for j in range(M)]), nl[k] < nr[k])
            inside = [z3.And(L[j] >= nl[k], R[j] <= nr[k]) for j in range(M)]
            yield f"content_is_union_sum[{k}]", cx.eq(res["freq"][k], zsum(z3.If(inside[j], f[j], 0) for j in range(M)))
            yield f"err2_is_union_sum[{k}]", cx.eq(res["err2"][k], zsum(z3.If(inside[j], q[j], 0) for j in range(M)))
            if k:
                yield f"rising[{k}]", nl[k] >= nr[k - 1]
        if p["gap"] is not None:
            g = p["gap"]
            yield "no_bin_across_gap", z3.And([z3.Not(z3.And(nl[k] <= R[g], nr[k] >= L[g + 1])) for k in range(Mn)] + [z3.BoolVal(True)])
        yield "total_conserved", cx.eq(res["total"], zsum(f))
        if not p.get("via_setter"):
            yield "missed_conserved", z3.And(cx.eq(res["under"], cx.t(x["u"])), cx.eq(res["over"], cx.t(x["o"])))
            yield "dtype_kept", res["dtype"] == b["dtype"] == res["fdtype"] == res["edtype"]
        yield "metadata_kept", obs["meta"] == ["n", "ax"]
        if p["inplace"]:
            yield "inplace_returns_self", obs["same_object"] is True
        else:
            yield "original_unchanged", unchanged(obs["after"])
            yield "new_object", obs["same_object"] is False


@register
class C10Merge2D(Harness):
    prop = "C10"
    group = "merge2d"
    bounds_doc = "2D shapes 2x3, 3x2 (thorough: 2x4, 2x2x3): merge along each axis / all axes with amount in [1, max+1] (forked); symbolic contents, errors2, edges, missed"

    def instances(self, tier):
        shapes = [(2, 3), (3, 2)] if tier == "quick" else [(2, 3), (3, 2), (2, 4), (2, 2, 3)]
        for shape in shapes:
            for axis in list(range(len(shape))) + [None]:
                for inplace in (False, True):
                    if tier == "quick" and inplace and axis is None:
                        continue
                    yield f"m2d-S{'x'.join(map(str, shape))}-ax{axis}-i{int(inplace)}", dict(shape=list(shape), axis=axis, inplace=inplace)
        # second axis with a gap, every axis merged (in place or not): refused - and the histogram is exactly as it was
        for inplace in (False, True):
            yield f"m2d-S2x2-axNone-i{int(inplace)}-gapped1", dict(shape=[2, 2], axis=None, inplace=inplace, gapped1=True)
        # the axis given by name, also when an earlier axis has no name (empty string / None)
        for names in (["a", "b"], ["", "b"], [None, "b"]):
            yield f"m2d-S2x3-ax1-byname-{names[0]!r}", dict(shape=[2, 3], axis=1, inplace=False, byname=True, names=names)
        if tier == "quick":
            # one 3D instance merging along the last axis (the generic bin-map path with two other axes of equal length)
            yield "m2d-S2x2x2-ax2-i0", dict(shape=[2, 2, 2], axis=2, inplace=False)

    def declare(self, cx, p):
        shape = p["shape"]
        return {"f": declare_cells(cx, "f", shape), "q": declare_cells(cx, "q", shape), "m": cx.real("m"),
                "e": [declare_edges(cx, f"e{k}_", shape[k]) for k in range(len(shape))], "a": cx.pyint("a", 1, max(shape) + 1)}

    def drive(self, E, p, x):
        np = E.np
        nd = E.mod("physt.histogram_nd")
        shape = p["shape"]
        D = len(shape)
        cls = nd.Histogram2D if D == 2 else nd.HistogramND
        axes = [np.asarray(x["e"][k]) for k in range(D)]
        if p.get("gapped1"):
            e1 = x["e"][1]
            axes[1] = np.asarray([[e1[0], e1[1]], [e1[1] + 1.0, e1[2] + 1.0]])
        h = cls(axes, np.asarray(nested(x["f"], shape), dtype=float), errors2=np.asarray(nested(x["q"], shape), dtype=float),
                missed=x["m"], axis_names=p.get("names") or ["a", "b", "c"][:D])
        kw = {"inplace": p["inplace"]}
        if p["axis"] is not None:
            kw["axis"] = p["names"][p["axis"]] if p.get("byname") else p["axis"]
        r = E.attempt(h.merge_bins, x["a"], **kw)
        obs = {"after": snapnd(E, h)}
        if isinstance(r, Raised):
            obs["raised"] = r
        else:
            obs["res"] = snapnd(E, r)
            obs["same_object"] = r is h
        return obs

    def oracle(self, cx, p, x, obs):
        shape = p["shape"]
        D = len(shape)
        if p.get("gapped1"):
            a = cx.t(x["a"])
            after = obs["after"]
            same = after["shape"] == shape and z3.And([cx.eq(getcell(after["freq"], idx), cx.t(v)) for idx, v in zip(product_indices(shape), x["f"])]
                                                       + [z3.And(cx.t(after["bins"][0][j][0]) == cx.t(x["e"][0][j]), cx.t(after["bins"][0][j][1]) == cx.t(x["e"][0][j + 1])) for j in range(shape[0])])
            if obs.get("raised") is not None:
                yield "refusal_only_across_gap", z3.And(a >= 2, z3.BoolVal(obs["raised"].name == "ValueError"))
                yield "unchanged_after_refusal", same if after["shape"] == shape else False
            else:
                yield "gap_crossing_refused", a == 1
            return
        yield "no_exception", obs.get("raised") is None
        if obs.get("raised") is not None:
            return
        a = cx.t(x["a"])
        idxs = product_indices(shape)
        f = {idx: cx.t(v) for idx, v in zip(idxs, x["f"])}
        q = {idx: cx.t(v) for idx, v in zip(idxs, x["q"])}
        res = obs["res"]
        merged_axes = list(range(D)) if p["axis"] is None else [p["axis"]]
        nshape = res["shape"]
        for k in range(D):
            if k in merged_axes:
                yield f"bin_count[{k}]", z3.And((nshape[k] - 1) * a < shape[k], nshape[k] * a >= shape[k])
            else:
                yield f"axis_untouched[{k}]", z3.And([z3.BoolVal(nshape[k] == shape[k])] + [
                    z3.And(cx.t(res["bins"][k][j][0]) == cx.t(x["e"][k][j]), cx.t(res["bins"][k][j][1]) == cx.t(x["e"][k][j + 1])) for j in range(min(shape[k], nshape[k]))])
        for nidx in product_indices(nshape):
            conds = {}
            for idx in idxs:
                c = [(z3.And(idx[k] >= nidx[k] * a, idx[k] < (nidx[k] + 1) * a) if k in merged_axes else z3.BoolVal(idx[k] == nidx[k])) for k in range(D)]
                conds[idx] = z3.And(c)
            tag = ",".join(map(str, nidx))
            yield f"content[{tag}]", cx.eq(getcell(res["freq"], nidx), zsum(z3.If(conds[i], f[i], 0) for i in idxs))
            yield f"err2[{tag}]", cx.eq(getcell(res["err2"], nidx), zsum(z3.If(conds[i], q[i], 0) for i in idxs))
        for k in merged_axes:
            e = [cx.t(t) for t in x["e"][k]]
            for j in range(nshape[k]):
                yield f"edges[{k}][{j}]", z3.And([z3.Implies(j * a == i, cx.t(res["bins"][k][j][0]) == e[i]) for i in range(shape[k])]
                                                 + [z3.Implies(z3.Or((j + 1) * a == i, z3.And((j + 1) * a > shape[k], i == shape[k])), cx.t(res["bins"][k][j][1]) == e[i]) for i in range(1, shape[k] + 1)])
        yield "total_conserved", cx.eq(res["total"], zsum(f.values()))
        yield "missed_conserved", cx.eq(res["missed"], cx.t(x["m"]))
        if not p["inplace"]:
            aft = obs["after"]
            yield "original_unchanged", z3.And([z3.BoolVal(aft["shape"] == shape)] + [cx.eq(getcell(aft["freq"], i), f[i]) for i in idxs] + [cx.eq(getcell(aft["err2"], i), q[i]) for i in idxs]) if aft["shape"] == shape else False
        else:
            yield "inplace_returns_self", obs["same_object"] is True


@register
class C10MinFreq2D(Harness):
    prop = "C10"
    group = "minfreq2d"
    bounds_doc = "2D histograms 3x2 / 2x3 / 3x3 merged along one axis with a symbolic min_frequency threshold (also on an adaptive fixed-width axis, amount=2): every new bin on that axis is a union of adjacent old bins, outer edges kept, cells are the sums of the old cells inside, the other axis, total and missed untouched"

    def instances(self, tier):
        for shape in ([(3, 2), (2, 3)] if tier == "quick" else [(3, 2), (2, 3), (3, 3)]):
            for axis in (0, 1):
                yield f"mf2d-S{shape[0]}x{shape[1]}-ax{axis}", dict(shape=list(shape), axis=axis, mode="minfreq")
        yield "mf2d-adaptive-amount2", dict(shape=[2, 2], axis=0, mode="adaptive")
        yield "m1d-adaptive-amount2", dict(shape=[4], axis=0, mode="adaptive1d")

    def declare(self, cx, p):
        shape = p["shape"]
        x = {"f": declare_cells(cx, "f", shape), "m": cx.real("m")}
        if p["mode"] == "minfreq":
            x["e"] = [declare_edges(cx, f"e{k}_", shape[k]) for k in range(2)]
            x["t"] = cx.pyfloat("t")
            if cx.sym:
                cx.assume(x["t"] > 0)
        if cx.sym:
            cx.assume(x["m"] >= 0)
        return x

    def drive(self, E, p, x):
        np = E.np
        shape = p["shape"]
        if p["mode"] == "adaptive1d":
            H1 = E.mod("physt.histogram1d").Histogram1D
            FWB = E.mod("physt.binnings").FixedWidthBinning
            h = H1(FWB(bin_width=1.0, bin_count=4, bin_times_min=0, adaptive=True), np.asarray(x["f"], dtype=float))
            r = E.attempt(h.merge_bins, 2)
            return {"raised_op": r} if isinstance(r, Raised) else {"res": snap1d(E, r), "after": snap1d(E, h), "one_d": True}
        H2 = E.mod("physt.histogram_nd").Histogram2D
        if p["mode"] == "adaptive":
            FWB = E.mod("physt.binnings").FixedWidthBinning
            bins = [FWB(bin_width=1.0, bin_count=2, bin_times_min=0, adaptive=True), np.asarray([0.0, 1.0, 2.0])]
            h = H2(bins, np.asarray(nested(x["f"], shape), dtype=float), missed=x["m"])
            r = E.attempt(h.merge_bins, 2, axis=0)
        else:
            h = H2([np.asarray(x["e"][k]) for k in range(2)], np.asarray(nested(x["f"], shape), dtype=float), missed=x["m"])
            r = E.attempt(h.merge_bins, min_frequency=x["t"], axis=p["axis"])
        if isinstance(r, Raised):
            return {"raised_op": r}
        return {"res": snapnd(E, r), "after": snapnd(E, h)}

    def oracle(self, cx, p, x, obs):
        yield "no_exception", obs.get("raised") is None and obs.get("raised_op") is None
        if obs.get("raised") is not None or obs.get("raised_op") is not None:
            return
        shape = p["shape"]
        res = obs["res"]
        if obs.get("one_d"):
            f = [cx.t(v) for v in x["f"]]
            yield "merged_pairs", z3.And([z3.BoolVal(len(res["freq"]) == 2)] + ([cx.eq(res["freq"][0], f[0] + f[1]), cx.eq(res["freq"][1], f[2] + f[3]),
                                          cx.t(res["bins"][0][0]) == 0, cx.t(res["bins"][0][1]) == 2, cx.t(res["bins"][1][1]) == 4] if len(res["freq"]) == 2 else []))
            yield "original_unchanged", z3.And([z3.BoolVal(len(obs["after"]["freq"]) == 4)] + [cx.eq(a, b) for a, b in zip(obs["after"]["freq"], f)])
            return
        idxs = product_indices(shape)
        f = {idx: cx.t(v) for idx, v in zip(idxs, x["f"])}
        ax = p["axis"]
        other = 1 - ax
        if p["mode"] == "adaptive":
            e = [[z3.RealVal(0), z3.RealVal(1), z3.RealVal(2)], [z3.RealVal(0), z3.RealVal(1), z3.RealVal(2)]]
        else:
            e = [[cx.t(t) for t in x["e"][k]] for k in range(2)]
        rb = res["bins"]
        n_new = len(rb[ax])
        yield "other_axis_untouched", z3.And([z3.BoolVal(len(rb[other]) == shape[other])] + [z3.And(cx.t(rb[other][j][0]) == e[other][j], cx.t(rb[other][j][1]) == e[other][j + 1]) for j in range(min(len(rb[other]), shape[other]))])
        fshape = [len(res["freq"]), len(res["freq"][0]) if res["freq"] else 0]
        yield "contents_match_bins", fshape[ax] == n_new and fshape[other] == shape[other]
        if fshape[ax] != n_new or fshape[other] != shape[other] or n_new == 0:
            return
        nl = [cx.t(b[0]) for b in rb[ax]]
        nr = [cx.t(b[1]) for b in rb[ax]]
        yield "outer_edges", z3.And(nl[0] == e[ax][0], nr[-1] == e[ax][shape[ax]])
        yield "contiguous_unions_of_old_bins", z3.And([z3.Or([nl[k] == e[ax][j] for j in range(shape[ax])]) for k in range(n_new)] + [z3.Or([nr[k] == e[ax][j + 1] for j in range(shape[ax])]) for k in range(n_new)]
                                                    + [nl[k] < nr[k] for k in range(n_new)] + [nl[k] == nr[k - 1] for k in range(1, n_new)])
        for k in range(n_new):
            for o in range(shape[other]):
                inside = [z3.And(e[ax][j] >= nl[k], e[ax][j + 1] <= nr[k]) for j in range(shape[ax])]
                src = lambda j: f[(j, o) if ax == 0 else (o, j)]  # noqa: E731
                cell = res["freq"][k][o] if ax == 0 else res["freq"][o][k]
                yield f"cell[{k},{o}]", cx.eq(cell, zsum(z3.If(inside[j], src(j), 0) for j in range(shape[ax])))
        yield "total_and_missed_conserved", z3.And(cx.eq(res["total"], zsum(f.values())), cx.eq(res["missed"], cx.t(x["m"])))
        a = obs["after"]
        yield "original_unchanged", z3.And([z3.BoolVal([len(a["freq"]), len(a["freq"][0])] == list(shape))] + [cx.eq(getcell(a["freq"], idx), f[idx]) for idx in idxs])
