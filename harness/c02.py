"""C02 - ND construction: each row counted once, in the cell that contains it."""
from __future__ import annotations

import itertools

import z3

from symx.api import Harness, Raised, register

from .common import getcell as common_getcell
from .common import consecutive, in_bin, rising_pairs, snapnd, tolerance_band, zsum


def _shape_name(s):
    return "x".join(str(i) for i in s)


@register
class C02Facade(Harness):
    prop = "C02"
    group = "h"
    bounds_doc = ("N rows x D columns (NaN-able reals), per-axis M_k bins as StaticBinning pairs (right edge inclusion per axis, "
                  "optional gap on one axis) or numpy-style edge arrays; weights none/int/real; entry h / h2 / h3")

    def instances(self, tier):
        if tier == "quick":
            cfgs = [(0, (2, 1)), (1, (2, 1)), (2, (2, 1)), (2, (1, 2)), (1, (2, 2)), (2, (1, 1, 2)), (1, (2, 1, 1, 1))]
            incs = ["TF", "FT"]
        else:
            cfgs = [(0, (2, 1)), (1, (2, 2)), (2, (2, 1)), (2, (1, 2)), (2, (2, 2)), (3, (2, 1)), (3, (1, 2)), (2, (1, 2, 2)),
                    (2, (2, 1, 2)), (3, (1, 1, 2)), (2, (1, 2, 1, 1)), (1, (2, 1, 1, 2))]
            incs = ["TF", "FT", "TT", "FF"]
        for (n, shape), inc, wk in itertools.product(cfgs, incs, ("none", "int", "real")):
            d = len(shape)
            incl = [(inc[k % 2] == "T") for k in range(d)]
            forms = ["rows"]
            if d == 2:
                forms.append("h2")
            if d == 3:
                forms.append("h3cols")
                forms.append("h3cols_tuple")
            for form in forms:
                if tier == "quick" and form != "rows" and wk != "int":
                    continue
                for gap in ([None] if (tier == "quick" and wk != "none") else [None, 0]):
                    if gap is not None and shape[gap] < 2:
                        continue
                    if gap is not None and wk == "real" and n > 2:
                        continue
                    yield (f"{form}-N{n}-S{_shape_name(shape)}-i{inc}-w{wk}-g{gap}",
                           dict(N=n, shape=list(shape), inc=incl, weights=wk, form=form, gap=gap, spec="static", nan=(n <= 2)))
        # an axis of three bins with gaps (one or both junctions): bins after a gap keep their own position in the masked edge array
        for (n, shape) in ([(1, (3, 1))] if tier == "quick" else [(1, (3, 1)), (2, (3, 1)), (1, (1, 3)), (1, (3, 2))]):
            ax = 0 if shape[0] == 3 else 1
            for wk in ("none", "int"):
                yield (f"rows-N{n}-S{_shape_name(shape)}-iTF-w{wk}-g{ax}-three", dict(N=n, shape=list(shape), inc=[True, False], weights=wk, form="rows", gap=ax, spec="static", nan=False))
        # per-axis (n, 2) arrays of left / right pairs with a gap (plain arrays, not binning objects)
        for form in ("rows", "h2"):
            for gap in (0, 1):
                yield (f"{form}-N2-S2x2-pairs-array-g{gap}", dict(N=2, shape=[2, 2], inc=[True, True], weights="int", form=form, gap=gap, spec="pairs_array", nan=False))
        # edge arrays + per-axis keyword lists / a scalar keyword (includes_right_edge given through the facade, not a binning object)
        for inc in ("TF", "FT", "FF"):
            for form in ("rows", "h2"):
                yield (f"{form}-N2-S2x1-i{inc}-wint-edges-kw", dict(N=2, shape=[2, 1], inc=[c == "T" for c in inc], weights="int", form=form, gap=None, spec="edges_kw", nan=False))
        # weights of either sign: the missed weight may be negative (a negative cell is refused); one tuple of edges shared by all axes
        for (n, shape) in [(2, (1, 1)), (2, (2, 1))]:
            yield (f"rows-N{n}-S{_shape_name(shape)}-edges-wsigned", dict(N=n, shape=list(shape), inc=[True] * len(shape), weights="sreal", form="rows", gap=None, spec="edges", nan=False))
        for (n, shape) in [(1, (1, 1)), (2, (2, 2)), (1, (2, 2, 2))]:
            yield (f"rows-N{n}-S{_shape_name(shape)}-shared-tuple", dict(N=n, shape=list(shape), inc=[True] * len(shape), weights="int", form="rows", gap=None, spec="shared_tuple", nan=False))
        # h2 with 2-D coordinate arrays of different memory layouts (y is a transposed view) and dropna=False: element i of x pairs with element i of y
        for wk in ("none", "int"):
            yield (f"h2layout-N4-S2x1-w{wk}", dict(N=4, shape=[2, 1], inc=[True, True], weights=wk, form="h2_layout", gap=None, spec="edges", nan=False))
        # numpy-style edge arrays (right edge always included by static_binning's default)
        for (n, shape) in ([(2, (2, 1)), (1, (1, 2, 2))] if tier == "quick" else [(2, (2, 1)), (2, (1, 2)), (3, (2, 2)), (2, (1, 2, 2))]):
            yield (f"rows-N{n}-S{_shape_name(shape)}-edges-wint", dict(N=n, shape=list(shape), inc=[True] * len(shape), weights="int",
                                                                       form="rows", gap=None, spec="edges", nan=True))

    def declare(self, cx, p):
        N, shape = p["N"], p["shape"]
        D = len(shape)
        x = {"x": [[cx.real(f"x{i}_{k}", nan=p["nan"]) for k in range(D)] for i in range(N)]}
        if p["weights"] == "int":
            x["w"] = cx.ints("w", N, lo=0)
        elif p["weights"] == "real":
            x["w"] = cx.reals("w", N)
            if cx.sym:
                cx.assume(*[w >= 0 for w in x["w"]])
        elif p["weights"] == "sreal":
            x["w"] = cx.reals("w", N)
        x["l"] = [[cx.real(f"l{k}_{j}") for j in range(shape[k])] for k in range(D)]
        x["r"] = [[cx.real(f"r{k}_{j}") for j in range(shape[k])] for k in range(D)]
        if cx.sym:
            for k in range(D):
                L, R = [cx.t(i) for i in x["l"][k]], [cx.t(i) for i in x["r"][k]]
                # any positive gap counts (cell membership is exact; no tolerance is involved in the ND path)
                cx.assume(rising_pairs(L, R))
                if p["gap"] == k:
                    cx.assume(z3.Not(consecutive(L, R)))
                else:
                    cx.assume(consecutive(L, R))
                if p["spec"] == "shared_tuple" and k:
                    cx.assume(*[a == b for a, b in zip(L + R, [cx.t(i) for i in x["l"][0] + x["r"][0]])])
        return x

    def drive(self, E, p, x):
        np = E.np
        facade = E.mod("physt._facade")
        SB = E.mod("physt.binnings").StaticBinning
        D = len(p["shape"])
        kw = {}
        if p["spec"] == "edges_kw":
            bins = [np.asarray([x["l"][k][0]] + list(x["r"][k])) for k in range(D)]
            kw["includes_right_edge"] = p["inc"][0] if len(set(p["inc"])) == 1 else list(p["inc"])
        elif p["spec"] == "pairs_array":
            bins = [np.asarray([[l, r] for l, r in zip(x["l"][k], x["r"][k])]) for k in range(D)]
        elif p["spec"] == "edges":
            bins = [np.asarray([x["l"][k][0]] + list(x["r"][k])) for k in range(D)]
        elif p["spec"] == "shared_tuple":
            bins = tuple([x["l"][0][0]] + list(x["r"][0]))
        else:
            bins = [SB([[l, r] for l, r in zip(x["l"][k], x["r"][k])], includes_right_edge=p["inc"][k]) for k in range(D)]
        if "w" in x:
            kw["weights"] = np.asarray(x["w"], dtype=int if p["weights"] == "int" else float)
        rows = x["x"]
        if p["form"] == "rows":
            data = np.asarray(rows, dtype=float).reshape((p["N"], D))
            h = E.attempt(facade.h, data, bins, **kw)
        elif p["form"] == "h2_layout":
            xs, ys = [r[0] for r in rows], [r[1] for r in rows]
            xarr = np.asarray([[xs[0], xs[1]], [xs[2], xs[3]]], dtype=float)
            yarr = np.asarray([[ys[0], ys[2]], [ys[1], ys[3]]], dtype=float).T      # logical order ys[0..3], memory order ys[0], ys[2], ys[1], ys[3]
            if "weights" in kw:
                kw["weights"] = np.asarray(kw["weights"]).reshape((2, 2))
            h = E.attempt(facade.h2, xarr, yarr, bins, dropna=False, **kw)
        elif p["form"] == "h2":
            h = E.attempt(facade.h2, [r[0] for r in rows], [r[1] for r in rows], bins, **kw)
        else:
            cols = [np.asarray([r[k] for r in rows], dtype=float) for k in range(D)]
            h = E.attempt(facade.h3, tuple(cols) if p["form"] == "h3cols_tuple" else cols, bins, **kw)
        if isinstance(h, Raised):
            return {"raised": h}
        d = snapnd(E, h)
        d["cls"] = type(h).__name__
        return d

    def oracle(self, cx, p, x, obs):
        N, shape = p["N"], p["shape"]
        D = len(shape)
        raised = obs.get("raised")
        if p["weights"] != "sreal":
            yield "no_exception", raised is None
            if raised is not None:
                return
        v = [[cx.t(c) for c in row] for row in x["x"]]
        nanrow = [z3.Or([cx.isnan(c) for c in row]) for row in x["x"]]
        w = [cx.t(i) for i in x["w"]] if "w" in x else [z3.IntVal(1)] * N
        L = [[cx.t(i) for i in x["l"][k]] for k in range(D)]
        R = [[cx.t(i) for i in x["r"][k]] for k in range(D)]

        def memb(i, k, j):
            last = j == shape[k] - 1
            return in_bin(v[i][k], L[k][j], R[k][j], last and p["inc"][k])

        getcell = common_getcell

        cells = []
        if p["weights"] == "sreal":
            # weights of either sign: a histogram with a negative cell is refused (free arithmetics is off), nothing else is
            refs = [zsum(z3.If(z3.And([z3.Not(nanrow[i])] + [memb(i, k, idx[k]) for k in range(D)]), w[i], 0) for i in range(N))
                    for idx in itertools.product(*[range(s) for s in shape])]
            negative = z3.Or([r < 0 for r in refs])
            if raised is not None:
                yield "refusal_only_for_negative_cell", z3.And(negative, z3.BoolVal(raised.name == "ValueError"))
                return
            yield "negative_cell_refused", z3.Not(negative)
        for idx in itertools.product(*[range(s) for s in shape]):
            conds = [z3.And([z3.Not(nanrow[i])] + [memb(i, k, idx[k]) for k in range(D)]) for i in range(N)]
            ref = zsum(z3.If(conds[i], w[i], 0) for i in range(N))
            ref2 = zsum(z3.If(conds[i], w[i] * w[i], 0) for i in range(N))
            cells.append(ref)
            tag = ",".join(map(str, idx))
            yield f"cell[{tag}]", cx.eq(getcell(obs["freq"], idx), ref)
            yield f"err2[{tag}]", cx.eq(getcell(obs["err2"], idx), ref2)
        total_w = zsum(z3.If(z3.Not(nanrow[i]), w[i], 0) for i in range(N))
        yield "missed", cx.eq(obs["missed"], total_w - zsum(cells))
        yield "total", cx.eq(obs["total"], zsum(cells))
        yield "shape", obs["shape"] == list(shape)
        yield "class", obs["cls"] == ("Histogram2D" if D == 2 else "HistogramND")
        yield "dtype_consistent", obs["dtype"] == obs["fdtype"] == obs["edtype"]
