"""C14 - statistics are those of the raw data entered, not of the bins."""
from __future__ import annotations

import z3

from symx.api import Harness, Raised, register

from .common import declare_edges, snap1d, zsum
from .c03 import _chunks

KEYS = ("sum", "sum2", "min", "max", "weight", "median")


def _st(E, h, moments=False):
    s = h.statistics
    d = {k: getattr(s, k) for k in KEYS}
    if moments:
        d["mean"] = E.attempt(s.mean)
        d["variance"] = E.attempt(s.variance)
    return d


@register
class C14Entered(Harness):
    prop = "C14"
    group = "entered"
    bounds_doc = "N<=3 in-range values with weights none/int/real entered by h1 construction, fill, fill_n (chunked), sums of partial histograms; then copy and positive scaling; M=2 bins"

    def instances(self, tier):
        ways = {1: ["h1", "f", "n1"], 2: ["h1", "ff", "n2", "fn1", "h1+h1", "n1n1"], 3: ["h1", "fff", "n3", "n2f", "h1+h1", "h1+f"]}
        for N in ((1, 2) if tier == "quick" else (1, 2, 3)):
            for way in ways[N]:
                for wk in ("none", "int", "real"):
                    if N == 3 and wk == "real" and way not in ("h1", "n3"):
                        continue
                    for post in ("none", "copy", "scale", "div", "idiv"):
                        if tier == "quick" and post != "none" and way not in ("h1", "ff", "f"):
                            continue
                        if post in ("div", "idiv") and (way != "h1" or (wk == "real" and N > 1)):
                            continue
                        yield f"st-N{N}-{way}-w{wk}-{post}", dict(N=N, way=way, weights=wk, post=post, M=2)
        # scaling by numpy scalars (np.int64, np.float64 - e.g. the sum of another histogram's contents) keeps the statistics like a python factor does
        # (np.float32 factors are left out: python-float statistics times a float32 scalar are rounded to binary32, which R-mode does not model)
        for post in ("scale_npi64", "scale_npf64", "iscale_npi64"):
            for wk in ("none", "real"):
                yield f"st-N2-h1-w{wk}-{post}", dict(N=2, way="h1", weights=wk, post=post, M=2)
        # histograms that do not track missed values (keep_missed=False): statistics are maintained all the same
        for way in ("h1", "ff", "n2", "fn1", "n1n1"):
            for wk in ("none", "real"):
                yield f"st-N2-{way}-w{wk}-none-keep0", dict(N=2, way=way, weights=wk, post="none", M=2, keep=False)
        # the values are entered into an EMPTY COPY (copy(include_frequencies=False)) of a histogram that already holds other data
        for way in ("ff", "n2", "fn1"):
            for wk in ("none", "real"):
                yield f"st-N2-{way}-w{wk}-none-emptycopy", dict(N=2, way=way, weights=wk, post="none", M=2, emptycopy=True)
        if tier == "quick":
            # an odd number of values (median = the middle one) is part of the quick tier too
            yield "st-N3-h1-wnone-none", dict(N=3, way="h1", weights="none", post="none", M=2)
        # construction from unweighted data, then one more fill: the median is no longer known
        yield "st-N2-h1+f-wnone-none", dict(N=2, way="h1+f", weights="none", post="none", M=2)

    def declare(self, cx, p):
        N = p["N"]
        x = {"v": cx.reals("v", N), "e": declare_edges(cx, "e", p["M"])}
        if p["weights"] == "int":
            x["w"] = [cx.pyint(f"w{i}", 1) for i in range(N)]
        elif p["weights"] == "real":
            x["w"] = [cx.pyfloat(f"w{i}") for i in range(N)]
            if cx.sym:
                cx.assume(*[w > 0 for w in x["w"]])
        if p["post"] in ("scale", "div", "idiv"):
            x["c"] = cx.pyfloat("c")
            if cx.sym:
                cx.assume(x["c"] > 0)
        if p["post"].endswith("npi64"):
            x["c"] = cx.pyint("c", 1, 4)
        if p["post"].endswith("npf64"):
            x["c4"] = cx.pyint("c4", 1, 12)      # the factor c4 / 4
        if cx.sym:
            cx.assume(*[z3.And(cx.t(v) >= cx.t(x["e"][0]), cx.t(v) <= cx.t(x["e"][-1])) for v in x["v"]])
        return x

    def drive(self, E, p, x):
        np = E.np
        h1 = E.mod("physt._facade").h1
        H1 = E.mod("physt.histogram1d").Histogram1D
        e = np.asarray(x["e"])
        N, way = p["N"], p["way"]
        wdt = int if p["weights"] == "int" else float

        def build(idx):
            kw = {}
            if "w" in x:
                kw["weights"] = np.asarray([x["w"][i] for i in idx], dtype=wdt)
            if p.get("keep") is False:
                kw["keep_missed"] = False
            return h1(np.asarray([x["v"][i] for i in idx], dtype=float), e, **kw)

        def enter(h, hist, start=0):
            for kind, idx in _chunks(hist):
                idx = [i + start for i in idx]
                if kind == "f":
                    if "w" in x:
                        h.fill(x["v"][idx[0]], x["w"][idx[0]])
                    else:
                        h.fill(x["v"][idx[0]])
                else:
                    kw = {}
                    if "w" in x:
                        kw["weights"] = np.asarray([x["w"][i] for i in idx], dtype=wdt)
                    h.fill_n(np.asarray([x["v"][i] for i in idx], dtype=float), **kw)

        if way == "h1":
            h = build(range(N))
        elif way == "h1+h1":
            h = build(range(N - 1)) + build([N - 1])
        elif way == "h1+f":
            h = build(range(N - 1))
            enter(h, ["f"], N - 1)
        else:
            hist = []
            k = 0
            while k < len(way):
                if way[k] == "f":
                    hist.append("f")
                    k += 1
                else:
                    hist.append("n" + way[k + 1])
                    k += 2
            h = H1(e, keep_missed=False) if p.get("keep") is False else H1(e)
            if p.get("emptycopy"):
                h = h1(np.asarray([(x["e"][0] + x["e"][1]) / 2.0, (x["e"][0] + x["e"][1]) / 2.0], dtype=float), e).copy(include_frequencies=False)
            enter(h, hist)
        if p["post"] == "copy":
            h = h.copy()
        elif p["post"] == "scale":
            h = h * x["c"]
        elif p["post"] == "scale_npi64":
            h = h * np.int64(x["c"])
        elif p["post"] == "iscale_npi64":
            h *= np.int64(x["c"])
        elif p["post"] == "scale_npf64":
            h = h * np.float64(x["c4"] / 4.0)
        elif p["post"] == "div":
            h = h / x["c"]
        elif p["post"] == "idiv":
            h /= x["c"]
        return {"st": _st(E, h), "total": h.total}

    def oracle(self, cx, p, x, obs):
        N = p["N"]
        yield "no_exception", obs.get("raised") is None
        if obs.get("raised") is not None:
            return
        v = [cx.t(i) for i in x["v"]]
        w = [cx.t(i) for i in x["w"]] if "w" in x else [z3.IntVal(1)] * N
        c = cx.t(x["c"]) if p["post"] in ("scale", "scale_npi64", "iscale_npi64") else (1 / cx.t(x["c"]) if p["post"] in ("div", "idiv") else z3.RealVal(1))
        if p["post"] == "scale_npf64":
            c = z3.ToReal(cx.t(x["c4"])) / 4
        st = obs["st"]
        S, S2, W = zsum(w[i] * v[i] for i in range(N)), zsum(w[i] * v[i] * v[i] for i in range(N)), zsum(w)
        yield "sum", cx.eq(st["sum"], c * S)
        yield "sum2", cx.eq(st["sum2"], c * S2)
        yield "weight", cx.eq(st["weight"], c * W)
        mn, mx = v[0], v[0]
        for t in v[1:]:
            mn = z3.If(t < mn, t, mn)
            mx = z3.If(t > mx, t, mx)
        yield "min", cx.eq(st["min"], mn)
        yield "max", cx.eq(st["max"], mx)
        if p["way"] == "h1" and p["weights"] == "none":
            if N == 1:
                ref = v[0]
            elif N == 2:
                ref = (v[0] + v[1]) / 2
            else:
                ref = v[0] + v[1] + v[2] - mn - mx
            yield "median", cx.eq(st["median"], ref)
        elif p["way"] != "h1":
            yield "median_invalid_after_incremental", cx.is_nan_leaf(st["median"])


@register
class C14Adaptive(C14Entered):
    group = "adaptive"
    bounds_doc = "N<=3 values in [-3, 3) with weights none/int/real entered into adaptive fixed-width histograms (width 1): partial histograms over different bin ranges combined with +, += and sum() (the bin-adapting branch of addition), fills that grow the bin range, += into an empty adaptive histogram"

    def instances(self, tier):
        for N in (2, 3):
            for way in ("h1+h1", "iadd", "sum", "h1+f", "empty+="):
                for wk in ("none", "int", "real"):
                    if tier == "quick" and (N == 3 and (wk == "real" or way in ("sum", "h1+f"))):
                        continue
                    yield f"sta-N{N}-{way}-w{wk}", dict(N=N, way=way, weights=wk, post="none")

    def declare(self, cx, p):
        N = p["N"]
        x = {"v": cx.reals("v", N)}
        if p["weights"] == "int":
            x["w"] = [cx.pyint(f"w{i}", 1) for i in range(N)]
        elif p["weights"] == "real":
            x["w"] = [cx.pyfloat(f"w{i}") for i in range(N)]
            if cx.sym:
                cx.assume(*[w > 0 for w in x["w"]])
        if cx.sym:
            cx.assume(*[z3.And(cx.t(v) >= -3, cx.t(v) < 3) for v in x["v"]])
        return x

    def drive(self, E, p, x):
        np = E.np
        h1 = E.mod("physt._facade").h1
        N, way = p["N"], p["way"]
        wdt = int if p["weights"] == "int" else float

        def build(idx):
            kw = {}
            if "w" in x:
                kw["weights"] = np.asarray([x["w"][i] for i in idx], dtype=wdt)
            return h1(np.asarray([x["v"][i] for i in idx], dtype=float), "fixed_width", bin_width=1.0, adaptive=True, **kw)

        a, b = build(range(N - 1)), build([N - 1])
        if way == "h1+h1":
            h = a + b
        elif way == "iadd":
            h = a
            h += b
        elif way == "sum":
            h = sum([a, b])
        elif way == "h1+f":
            h = a
            if "w" in x:
                h.fill(x["v"][N - 1], x["w"][N - 1])
            else:
                h.fill(x["v"][N - 1])
        else:
            h = h1(None, "fixed_width", bin_width=1.0, adaptive=True, dtype=(None if p["weights"] != "real" else float))
            h += a
            h += b
        return {"st": _st(E, h), "total": h.total, "nbins": len(h.frequencies)}

    def oracle(self, cx, p, x, obs):
        yield from super().oracle(cx, p, x, obs)
        if obs.get("raised") is None:
            w = [cx.t(i) for i in x["w"]] if "w" in x else [z3.IntVal(1)] * p["N"]
            yield "total", cx.eq(obs["total"], zsum(w))


@register
class C14Invalid(Harness):
    prop = "C14"
    group = "invalid"
    bounds_doc = "operations that cannot maintain statistics: subtraction, array arithmetic (free arithmetics on), construction from bare frequencies; empty histogram"

    def instances(self, tier):
        for op in ("sub", "isub", "add_array", "mul_array", "div_array", "bare", "empty", "empty_h1", "sub_free", "isub_free", "sub_array", "sub_larger_free"):
            yield f"inv-{op}", dict(op=op, M=2)

    def declare(self, cx, p):
        x = {"v": cx.reals("v", 2), "e": declare_edges(cx, "e", p["M"]), "a": cx.reals("a", p["M"])}
        if cx.sym:
            cx.assume(*[z3.And(cx.t(v) >= cx.t(x["e"][0]), cx.t(v) <= cx.t(x["e"][-1])) for v in x["v"]])
            cx.assume(*[a > 0 for a in x["a"]])
        return x

    def drive(self, E, p, x):
        np = E.np
        h1 = E.mod("physt._facade").h1
        H1 = E.mod("physt.histogram1d").Histogram1D
        config = E.mod("physt.config").config
        e = np.asarray(x["e"])
        op = p["op"]
        if op == "bare":
            h = H1(e, np.asarray([1, 2]))
        elif op == "empty":
            h = H1(e)
        elif op == "empty_h1":
            h = h1(np.asarray([], dtype=float), e)
        else:
            h = h1(np.asarray(x["v"]), e)
            g = h1(np.asarray(x["v"][:1]), e)
            arr = np.asarray(x["a"])
            if op == "sub":
                h = h - g
            elif op == "isub":
                h -= g
            else:
                with config.enable_free_arithmetics():
                    if op == "sub_free":
                        h = h - g
                    elif op == "isub_free":
                        h -= g
                    elif op == "sub_larger_free":
                        h = g - h
                    elif op == "sub_array":
                        h = h - arr
                    elif op == "neg_factor_free":
                        h = h + g * (-1)
                    elif op == "add_array":
                        h = h + arr
                    elif op == "mul_array":
                        h = h * arr
                    else:
                        h = h / arr
        return {"st": _st(E, h, moments=True)}

    def oracle(self, cx, p, x, obs):
        yield "no_exception", obs.get("raised") is None
        if obs.get("raised") is not None:
            return
        st = obs["st"]
        if p["op"].startswith("empty"):
            yield "weight_zero", cx.eq(st["weight"], 0)
            yield "mean_nan", cx.is_nan_leaf(st["mean"])
            yield "sum_zero", z3.And(cx.eq(st["sum"], 0), cx.eq(st["sum2"], 0))
            return
        for k in ("sum", "sum2", "weight", "mean", "variance", "min", "max"):
            yield f"invalid[{k}]", cx.is_nan_leaf(st[k])


@register
class C14Moments(Harness):
    prop = "C14"
    group = "moments"
    bounds_doc = "Statistics.mean/variance/std as functions of arbitrary symbolic fields (sum, sum2, weight > 0, Cauchy-Schwarz-consistent): population moments, std >= 0 and std^2 = variance; with the field checks of group 'entered' this gives the moments of the raw data"

    def instances(self, tier):
        yield "moments-pos", dict(weight="pos")
        yield "moments-zero", dict(weight="zero")

    def declare(self, cx, p):
        x = {"s": cx.pyfloat("s"), "s2": cx.pyfloat("s2"), "w": cx.pyfloat("w")}
        if cx.sym:
            if p["weight"] == "pos":
                cx.assume(x["w"] > 0, cx.t(x["s2"]) * cx.t(x["w"]) >= cx.t(x["s"]) * cx.t(x["s"]))
            else:
                cx.assume(x["w"] == 0)
        return x

    def drive(self, E, p, x):
        St = E.mod("physt.statistics").Statistics
        s = St(sum=x["s"], sum2=x["s2"], weight=x["w"], min=0.0, max=1.0)
        return {"mean": E.attempt(s.mean), "variance": E.attempt(s.variance), "std": E.attempt(s.std)}

    def oracle(self, cx, p, x, obs):
        S, S2, W = cx.t(x["s"]), cx.t(x["s2"]), cx.t(x["w"])
        if p["weight"] == "zero":
            yield "mean_nan", cx.is_nan_leaf(obs["mean"])
            yield "variance_nan", cx.is_nan_leaf(obs["variance"])
            return
        ok = all(cx.finite(obs[k]) and not isinstance(obs[k], Raised) for k in ("mean", "variance", "std"))
        yield "moments_finite", ok
        if ok:
            yield "mean", cx.t(obs["mean"]) * W == S
            yield "variance", cx.t(obs["variance"]) * W * W == S2 * W - S * S
            yield "std", z3.And(cx.t(obs["std"]) >= 0, cx.t(obs["std"]) * cx.t(obs["std"]) * W * W == S2 * W - S * S)
