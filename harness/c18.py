"""C18 - histograms stay well-formed; failed operations change nothing.

One inductive step from an ARBITRARY valid state (symbolic contents, errors2, missed): any single public operation,
valid or invalid, leaves the histogram well-formed, and if it raises, every content per bin interval, error2 and missed
count is exactly what it was (the dtype may have been promoted losslessly).  Histories of any length are sequences of
such steps; the thorough tier additionally runs two-step histories (valid then invalid)."""
from __future__ import annotations

import itertools

import z3

from symx.api import Harness, Raised, register

from .c12 import flat, full
from .common import declare_cells, declare_edges, nested, zsum, product_indices

OPS_1D = [
    # (name, expected) expected: "ok" | exception name | "maybe" (depends on the symbolic state, decided in the oracle)
    "fill", "fill_n", "fill_n_empty", "iadd_same", "isub_le", "imul_pos", "idiv_pos", "merge2", "set_float", "normalize_inplace",
    "iadd_diffbins", "isub_diffbins", "iadd_scalar", "iadd_list", "iadd_none", "isub_any", "imul_any", "imul_hist", "filln_wshape_f16", "filln_wshape_f32", "set_err_shape", "idiv_any", "filln_w_same_size_other_shape", "filln_w_count_of_non_nan", "idiv_hist", "imul_list", "idiv_zero_list",
    "filln_wshape", "filln_w2d", "fill_badweight", "fill_nonscalar", "dtype_str", "dtype_complex", "dtype_small", "merge_frac", "merge_axis", "getitem_range",
    "set_freq_shape", "set_freq_negative", "set_err_negative", "find_bin_array",
]
OPS_2D = ["set_err_shape", "idiv_any", "fill", "fill_n", "iadd_same", "imul_pos", "merge2", "iadd_diffbins", "isub_diffbins", "iadd_1d", "iadd_scalar", "isub_any", "imul_any", "filln_shape1d", "filln_cols3", "fill_wrong_len",
          "fill_scalar", "dtype_str", "merge_axis", "projection_bad", "getitem_toomany", "partial_bad_axis", "set_freq_shape"]


def per_interval(snap):
    """{(left, right) terms: (freq, err2)} as lists aligned by bin order."""
    return snap


class _Base(Harness):
    prop = "C18"

    def _state_equal(self, cx, a, b, adaptive=False):
        """Recorded contents per bin interval, errors2 and missed equal (dtype may differ)."""
        conj = []
        if not adaptive:
            if a["fshape"] != b["fshape"]:
                return z3.BoolVal(False)
            for u, v in zip(flat(a["freq"]) + flat(a["err2"]) + flat(a["bins"]), flat(b["freq"]) + flat(b["err2"]) + flat(b["bins"])):
                conj.append(self._same_num(cx, u, v))
        else:
            # every old interval still exists with its content; every other interval is empty
            ba, bb = a["bins"][0], b["bins"][0]
            if len(b["freq"]) != len(bb) or len(b["err2"]) != len(bb) or len(a["freq"]) != len(ba):
                return z3.BoolVal(False)
            for j, (l, r) in enumerate(ba):
                hit = [z3.And(cx.t(l) == cx.t(l2), cx.t(r) == cx.t(r2), self._same_num(cx, a["freq"][j], b["freq"][k]), self._same_num(cx, a["err2"][j], b["err2"][k])) for k, (l2, r2) in enumerate(bb)]
                conj.append(z3.Or(hit) if hit else z3.BoolVal(False))
            for k, (l2, r2) in enumerate(bb):
                old = [z3.And(cx.t(l) == cx.t(l2), cx.t(r) == cx.t(r2)) for (l, r) in ba]
                conj.append(z3.Or(old + [z3.And(self._same_num(cx, b["freq"][k], 0), self._same_num(cx, b["err2"][k], 0))]))
        for u, v in zip(flat(a["missed"]), flat(b["missed"])):
            conj.append(self._same_num(cx, u, v))
        return z3.And(conj) if conj else z3.BoolVal(True)

    @staticmethod
    def _same_num(cx, u, v):
        fu, fv = cx.finite(u), cx.finite(v)
        if fu and fv:
            nu, nv = cx.isnan(u), cx.isnan(v)
            return z3.Or(z3.And(nu, nv), z3.And(z3.Not(nu), z3.Not(nv), cx.t(u) == cx.t(v)))
        if not fu and not fv:
            return z3.BoolVal(repr(getattr(u, "v", u)) == repr(getattr(v, "v", v)))
        return z3.BoolVal(False)

    def _wellformed(self, cx, s, nonneg=True):
        n_axes = len(s["bins"])
        ok = s["fshape"] == s["eshape"] and len(s["fshape"]) == n_axes and all(len(s["bins"][k]) == s["fshape"][k] for k in range(n_axes)) and s["dtype"] == s["fdtype"]
        conj = [z3.BoolVal(bool(ok))]
        for v in flat(s["err2"]):
            if cx.finite(v):
                conj.append(z3.Or(cx.isnan(v), cx.t(v) >= 0))
        if nonneg:
            for v in flat(s["freq"]):
                if cx.finite(v):
                    conj.append(z3.Or(cx.isnan(v), cx.t(v) >= 0))
        for k in range(n_axes):
            for (l, r) in s["bins"][k]:
                conj.append(cx.t(l) < cx.t(r))
        return z3.And(conj)

    def oracle(self, cx, p, x, obs):
        yield "no_harness_exception", obs.get("raised") is None
        if obs.get("raised") is not None:
            return
        adaptive = p.get("subject") == "1d-adaptive"
        for step, st in enumerate(obs["steps"]):
            tag = f"[{step}:{st['op']}]"
            yield f"wellformed{tag}", self._wellformed(cx, st["after"])
            if st["outcome"] != "ok":
                yield f"unchanged_after_raise{tag}", self._state_equal(cx, st["before"], st["after"], adaptive)
                # "at most the dtype may already have been promoted losslessly"
                from .c13 import RANK, can_cast as _cc
                b, a = st["before"]["dtype"], st["after"]["dtype"]
                yield f"dtype_after_raise_lossless{tag}", a == b or (b in RANK and a in RANK and _cc(b, a))
                yield f"other_operand_unchanged{tag}", self._state_equal(cx, st["other_before"], st["other_after"]) if st.get("other_before") else True
            exp = st["expect"]
            if exp == "ok":
                yield f"valid_call_accepted{tag}", st["outcome"] == "ok"
            elif exp != "maybe":
                yield f"invalid_call_refused{tag}", st["outcome"] in (exp if isinstance(exp, (list, tuple)) else (exp,))


@register
class C18Step1D(_Base):
    group = "step1d"
    bounds_doc = "1D histograms (static int, static float, adaptive fixed-width; 2 bins) in an arbitrary symbolic valid state x one public operation from a pool of 34 valid and invalid calls with symbolic arguments; thorough: also all two-step histories (valid op, then any op)"

    def instances(self, tier):
        for subject in ("1d-int", "1d-float", "1d-adaptive"):
            for op in OPS_1D:
                yield f"{subject}-{op}", dict(subject=subject, ops=[op])
            if tier != "quick":
                for first in ("fill", "iadd_same", "merge2", "set_float"):
                    for op in OPS_1D:
                        if op in ("fill_n_empty",):
                            continue
                        yield f"{subject}-{first}+{op}", dict(subject=subject, ops=[first, op])
        # a histogram whose element type was narrowed to int16 (contents up to the type's maximum): entering more promotes instead of wrapping around
        for op in ("fill", "fill_n", "iadd_same", "imul_pos", "filln_wshape"):
            yield f"1d-int16-{op}", dict(subject="1d-int16", ops=[op])
        # one batch that makes an adaptive axis grow on both sides at once (valid, and refused for its weights after the growth was prepared)
        for op in ("fill_n_two_sided", "filln_two_sided_wshape"):
            yield f"1d-adaptive-{op}", dict(subject="1d-adaptive", ops=[op])
        yield "1d-adaptive-iadd_adaptive_other", dict(subject="1d-adaptive", ops=["iadd_adaptive_other"])
        yield "1d-adaptive-iadd_adaptive_other+fill", dict(subject="1d-adaptive", ops=["iadd_adaptive_other", "fill"])

    def declare(self, cx, p):
        kind = "real" if p["subject"] == "1d-float" else "int"
        x = {"f": declare_cells(cx, "f", [2], kind), "q": declare_cells(cx, "q", [2], kind), "g": declare_cells(cx, "g", [2], kind),
             "v": cx.pyfloat("v"), "w": cx.pyint("w", 0, 3), "c": cx.pyfloat("c"), "e": declare_edges(cx, "e", 2), "t": cx.pyint("t", -2, 2)}
        for n in ("u", "o", "gu", "go"):
            x[n] = cx.int(n, 0, 100) if kind == "int" else cx.real(n)
            if cx.sym and kind != "int":
                cx.assume(x[n] >= 0)
        if cx.sym and p["subject"] == "1d-int16":
            cx.assume(*[cx.t(v) <= 32767 for v in list(x["f"]) + list(x["q"]) + list(x["g"])])
        if cx.sym:
            # the operand's own under/overflow never exceed the subject's (whether missed counts may go negative is not the question here)
            cx.assume(x["gu"] <= x["u"], x["go"] <= x["o"])
        if cx.sym:
            if p["subject"] == "1d-adaptive":
                cx.assume(x["v"] >= x["t"] - 2, x["v"] < x["t"] + 4)
            cx.assume(x["c"] >= -2, x["c"] <= 2)
            if "idiv_any" in p["ops"]:
                cx.assume(cx.t(x["c"]) != 0)   # division by zero is not one of the statement's invalid calls
            cx.assume(*[z3.And(cx.t(t) >= -100, cx.t(t) <= 100) for t in x["e"]])
            if "normalize_inplace" in p["ops"]:
                cx.assume(zsum(cx.t(i) for i in x["f"]) > 0)
            f, g = [cx.t(i) for i in x["f"]], [cx.t(i) for i in x["g"]]
            cx.define("would_go_negative", z3.Or([g[j] > f[j] for j in range(2)]))
        return x

    def _make(self, E, p, x):
        np = E.np
        H1 = E.mod("physt.histogram1d").Histogram1D
        dt = float if p["subject"] == "1d-float" else ("int16" if p["subject"] == "1d-int16" else int)
        if p["subject"] == "1d-adaptive":
            FWB = E.mod("physt.binnings").FixedWidthBinning
            mk = lambda vals, **kw: H1(FWB(bin_width=1.0, bin_count=2, bin_times_min=x["t"], adaptive=True), np.asarray(vals, dtype=dt), **kw)  # noqa: E731
            return mk(x["f"], errors2=np.asarray(x["q"], dtype=dt)), mk(x["g"])
        mk = lambda vals, **kw: H1(np.asarray(x["e"]), np.asarray(vals, dtype=dt), **kw)  # noqa: E731
        if p["subject"] == "1d-int16":
            # the operand is an ordinary int64 histogram (sums of two int16 histograms wrap around in numpy itself - not the subject here)
            return mk(x["f"], errors2=np.asarray(x["q"], dtype=dt), underflow=x["u"], overflow=x["o"]), H1(np.asarray(x["e"]), np.asarray(x["g"], dtype=int), underflow=x["gu"], overflow=x["go"])
        return mk(x["f"], errors2=np.asarray(x["q"], dtype=dt), underflow=x["u"], overflow=x["o"]), mk(x["g"], underflow=x["gu"], overflow=x["go"])

    def _shifted(self, E, p, x):
        """An adaptive operand over a range shifted by 3 bins (built once per path)."""
        if getattr(self, "_shifted_cache", (None, None))[0] is x:
            return self._shifted_cache[1]
        np = E.np
        H1 = E.mod("physt.histogram1d").Histogram1D
        FWB = E.mod("physt.binnings").FixedWidthBinning
        dt = float if p["subject"] == "1d-float" else int
        o = H1(FWB(bin_width=1.0, bin_count=2, bin_times_min=x["t"] + 3, adaptive=True), np.asarray(x["g"], dtype=dt))
        self._shifted_cache = (x, o)
        return o

    def _call(self, E, p, x, h, g, op):
        """-> (expected, thunk, other)"""
        np = E.np
        H1 = E.mod("physt.histogram1d").Histogram1D
        v, w, c = x["v"], x["w"], x["c"]

        def iop(fn):
            def run():
                fn()
            return run

        def imul(val):
            def run():
                hh = h
                hh *= val
            return run

        def idiv(val):
            def run():
                hh = h
                hh /= val
            return run

        def iadd(val):
            def run():
                hh = h
                hh += val
            return run

        def isub(val):
            def run():
                hh = h
                hh -= val
            return run

        def setattr_(name, val):
            def run():
                setattr(h, name, val)
            return run

        other_bins = H1(np.asarray([1000.0, 1001.0, 1002.0]), np.asarray([1, 1]), underflow=1, overflow=2)
        H2 = E.mod("physt.histogram_nd").Histogram2D
        table = {
            "isub_diffbins": (("ValueError", "RuntimeError") if p["subject"] != "1d-adaptive" else "maybe", isub(other_bins), other_bins),
            "iadd_adaptive_other": ("maybe", iadd(self._shifted(E, p, x)), "shifted"),
            "fill": ("ok", lambda: h.fill(v, w), None),
            "fill_n": ("ok", lambda: h.fill_n(np.asarray([v, v]), weights=np.asarray([w, 1])), None),
            "fill_n_two_sided": ("ok", lambda: h.fill_n(np.asarray([v, v + 4])), None),
            "filln_two_sided_wshape": ("ValueError", lambda: h.fill_n(np.asarray([v, v + 4]), weights=np.asarray([1])), None),
            "fill_n_empty": ("maybe", lambda: h.fill_n(np.asarray([], dtype=float)), None),
            "iadd_same": ("ok", iadd(g), g),
            "isub_le": ("maybe", isub(g), g),
            "imul_pos": ("ok", imul(2), None),
            "idiv_pos": ("ok", idiv(2), None),
            "merge2": ("ok", lambda: h.merge_bins(2, inplace=True), None),
            "set_float": ("ok", setattr_("dtype", "float64"), None),
            "normalize_inplace": ("maybe", lambda: h.normalize(inplace=True), None),
            "iadd_diffbins": (("ValueError", "RuntimeError") if p["subject"] != "1d-adaptive" else "maybe", iadd(other_bins), other_bins),
            "iadd_scalar": ("TypeError", iadd(3), None),
            "iadd_list": ("TypeError", iadd([1, 2]), None),
            "iadd_none": ("TypeError", iadd(None), None),
            "isub_any": ("maybe", isub(g), g),
            "imul_any": ("maybe", imul(c), None),
            "imul_hist": ("TypeError", imul(g), g),
            "idiv_hist": ("TypeError", idiv(g), g),
            "imul_list": ("TypeError", imul([1, 2]), None),
            "idiv_zero_list": ("TypeError", idiv([1, 0]), None),
            "filln_wshape": ("ValueError", lambda: h.fill_n(np.asarray([v, v]), weights=np.asarray([1])), None),
            "filln_wshape_f16": ("ValueError", lambda: h.fill_n(np.asarray([v, v]), weights=np.asarray([1.5], dtype="float16"), dropna=False), None),
            "filln_wshape_f32": ("ValueError", lambda: h.fill_n(np.asarray([v, v]), weights=np.asarray([1.5], dtype="float32"), dropna=False), None),
            "filln_w2d": ("ValueError", lambda: h.fill_n(np.asarray([v, v]), weights=np.asarray([[1, 1], [1, 1]])), None),
            "filln_w_same_size_other_shape": ("ValueError", lambda: h.fill_n(np.asarray([v, v, v, v]), weights=np.asarray([[1, 1], [1, 1]])), None),
            "filln_w_count_of_non_nan": ("ValueError", lambda: h.fill_n(np.asarray([v, float("nan"), v]), weights=np.asarray([1, 1])), None),
            "fill_badweight": (("ValueError", "TypeError"), lambda: h.fill(v, "heavy"), None),
            "fill_nonscalar": (("ValueError", "TypeError"), lambda: h.fill([v, v]), None),
            "dtype_str": (("ValueError", "TypeError"), setattr_("dtype", "str"), None),
            "dtype_complex": (("ValueError", "TypeError"), setattr_("dtype", "complex"), None),
            "dtype_small": ("maybe", setattr_("dtype", "int16"), None),
            "merge_frac": ("ValueError", lambda: h.merge_bins(1.5, inplace=True), None),
            "merge_axis": (("ValueError", "TypeError", "IndexError"), lambda: h.merge_bins(2, axis=3, inplace=True), None),
            "getitem_range": ("IndexError", lambda: h[7], None),
            "set_freq_shape": ("ValueError", setattr_("frequencies", np.asarray([1, 2, 3])), None),
            "set_err_shape": ("ValueError", setattr_("errors2", np.asarray([1, 2, 3])), None),
            "set_freq_negative": ("ValueError", setattr_("frequencies", np.asarray([1, -2])), None),
            "idiv_any": ("maybe", idiv(c), None),
            "set_err_negative": ("ValueError", setattr_("errors2", np.asarray([1, -2])), None),
            "find_bin_array": ("ValueError", lambda: h.find_bin([v, v]), None),
        }
        return table[op]

    def drive(self, E, p, x):
        h, g = self._make(E, p, x)
        steps, seen = [], []
        for op in p["ops"]:
            expect, thunk, other = self._call(E, p, x, h, g, op)
            if other == "shifted":
                other = self._shifted(E, p, x)
            if steps and steps[0]["op"] in ("merge2", "fill", "fill_n") and op in ("iadd_same", "set_freq_shape", "set_err_shape", "merge2"):
                # the first step changed the bin layout (merge / adaptive growth): whether the operand still has the same bins, or a
                # 3-element array still has the wrong shape, depends on the state - the outcome is not fixed by the call alone
                expect = "maybe"
            before = full(E, h)
            ob = full(E, other) if other is not None else None
            r = E.attempt(thunk)
            if other is not None and not any(other is o for o in seen):
                seen.append(other)
            steps.append({"op": op, "expect": expect, "outcome": r.name if isinstance(r, Raised) else "ok", "before": before, "after": full(E, h),
                          "other_before": ob, "other_after": full(E, other) if other is not None else None,
                          # every operand used so far, re-inspected after this step (the cross-cutting snapshot obligations apply to them)
                          "operands_so_far": [full(E, o) for o in seen]})
        return {"steps": steps}

    def oracle(self, cx, p, x, obs):
        yield from super().oracle(cx, p, x, obs)
        if obs.get("raised") is not None:
            return
        # state-dependent refusals
        f, g = [cx.t(i) for i in x["f"]], [cx.t(i) for i in x["g"]]
        for step, st in enumerate(obs["steps"]):
            if step:
                break
            tag = f"[{step}:{st['op']}]"
            if st["op"] in ("isub_any", "isub_le"):
                neg = z3.Or([g[j] > f[j] for j in range(2)])
                yield f"oversubtraction_refused{tag}", z3.BoolVal(st["outcome"] != "ok") == neg if p["subject"] != "1d-adaptive" else z3.Implies(neg, z3.BoolVal(st["outcome"] != "ok"))
            if st["op"] == "imul_any":
                c = cx.t(x["c"])
                neg = z3.And(c < 0, z3.Or([v > 0 for v in f]))
                yield f"negative_factor_refused{tag}", z3.Implies(neg, z3.BoolVal(st["outcome"] != "ok"))
                yield f"harmless_factor_accepted{tag}", z3.Implies(c > 0, z3.BoolVal(st["outcome"] == "ok"))
            if st["op"] == "idiv_any":
                c = cx.t(x["c"])
                neg = z3.And(c < 0, z3.Or([v > 0 for v in f]))
                yield f"negative_divisor_refused{tag}", z3.Implies(neg, z3.BoolVal(st["outcome"] != "ok"))
                yield f"harmless_divisor_accepted{tag}", z3.Implies(c > 0, z3.BoolVal(st["outcome"] == "ok"))
            if st["op"] == "dtype_small" and p["subject"] == "1d-int":
                toobig = z3.Or([v > 32767 for v in f] + [cx.t(v) > 32767 for v in x["q"]])
                yield f"lossy_dtype_refused{tag}", z3.BoolVal(st["outcome"] != "ok") == toobig


@register
class C18Step2D(_Base):
    group = "step2d"
    bounds_doc = "2D histograms (2x2 static, int) in an arbitrary symbolic valid state x one public operation from a pool of 20 valid and invalid calls"

    def instances(self, tier):
        for op in OPS_2D:
            yield f"2d-{op}", dict(subject="2d", ops=[op])
        # second axis with a gap: merging every axis is refused (axis 1 cannot be merged across the gap) - and then nothing has been merged
        for op in ("merge_all2", "merge_all2_copy", "merge2", "fill"):
            yield f"2d-gapped1-{op}", dict(subject="2d", ops=[op], gapped1=True)

    def declare(self, cx, p):
        x = {"f": declare_cells(cx, "f", [2, 2], "int"), "q": declare_cells(cx, "q", [2, 2], "int"), "g": declare_cells(cx, "g", [2, 2], "int"), "m": cx.int("m", 0, 100), "gm": cx.int("gm", 0, 100),
             "v": cx.pyfloat("v"), "w": cx.pyint("w", 0, 3), "c": cx.pyfloat("c"), "e": [declare_edges(cx, f"e{k}_", 2) for k in range(2)]}
        if cx.sym:
            cx.assume(x["c"] >= -2, x["c"] <= 2)
            if "idiv_any" in p["ops"]:
                cx.assume(cx.t(x["c"]) != 0)
            cx.assume(*[z3.And(cx.t(t) >= -100, cx.t(t) <= 100) for k in range(2) for t in x["e"][k]])
            cx.assume(x["gm"] <= x["m"])
        return x

    def drive(self, E, p, x):
        np = E.np
        H2 = E.mod("physt.histogram_nd").Histogram2D
        H1 = E.mod("physt.histogram1d").Histogram1D
        ax1 = np.asarray(x["e"][1])
        if p.get("gapped1"):
            e1 = x["e"][1]
            ax1 = np.asarray([[e1[0], e1[1]], [e1[1] + 1.0, e1[2] + 1.0]])
        mk = lambda vals, **kw: H2([np.asarray(x["e"][0]), ax1], np.asarray(nested(vals, [2, 2]), dtype=int), **kw)  # noqa: E731
        h, g = mk(x["f"], errors2=np.asarray(nested(x["q"], [2, 2]), dtype=int), missed=x["m"]), mk(x["g"], missed=x["gm"])
        v, w, c = x["v"], x["w"], x["c"]
        other_bins = H2([np.asarray([1000.0, 1001.0, 1002.0]), np.asarray(x["e"][1])], np.asarray([[1, 1], [1, 1]]), missed=3)
        one_d = H1(np.asarray(x["e"][0]), np.asarray([1, 1]))

        def iadd(val):
            def run():
                hh = h
                hh += val
            return run

        def isub(val):
            def run():
                hh = h
                hh -= val
            return run

        def imul(val):
            def run():
                hh = h
                hh *= val
            return run

        def idiv(val):
            def run():
                hh = h
                hh /= val
            return run

        def setattr_(name, val):
            def run():
                setattr(h, name, val)
            return run

        table = {
            "fill": ("ok", lambda: h.fill([v, v], w), None),
            "fill_n": ("ok", lambda: h.fill_n(np.asarray([[v, v], [v, v]]), weights=np.asarray([w, 1])), None),
            "iadd_same": ("ok", iadd(g), g),
            "imul_pos": ("ok", imul(2), None),
            "merge2": ("ok", lambda: h.merge_bins(2, axis=0, inplace=True), None),
            "merge_all2": ("ValueError", lambda: h.merge_bins(2, inplace=True), None),
            "merge_all2_copy": ("ValueError", lambda: h.merge_bins(2), None),
            "iadd_diffbins": (("ValueError", "RuntimeError"), iadd(other_bins), other_bins),
            "isub_diffbins": (("ValueError", "RuntimeError"), isub(other_bins), other_bins),
            "iadd_1d": ("ValueError", iadd(one_d), None),
            "iadd_scalar": ("TypeError", iadd(3), None),
            "isub_any": ("maybe", isub(g), g),
            "imul_any": ("maybe", imul(c), None),
            "filln_shape1d": ("ValueError", lambda: h.fill_n(np.asarray([v, v, v])), None),
            "filln_cols3": ("ValueError", lambda: h.fill_n(np.asarray([[v, v, v]])), None),
            "fill_wrong_len": ("ValueError", lambda: h.fill([v, v, v]), None),
            "fill_scalar": (("TypeError", "ValueError", "IndexError"), lambda: h.fill(v), None),
            "dtype_str": (("ValueError", "TypeError"), setattr_("dtype", "str"), None),
            "merge_axis": (("ValueError", "TypeError", "IndexError"), lambda: h.merge_bins(2, axis=5, inplace=True), None),
            "projection_bad": ("ValueError", lambda: h.projection(4), None),
            "getitem_toomany": ("IndexError", lambda: h[0, 0, 0], None),
            "partial_bad_axis": (("ValueError", "TypeError"), lambda: h.partial_normalize(3, inplace=True), None),
            "set_freq_shape": ("ValueError", setattr_("frequencies", np.asarray([1, 2, 3])), None),
            "set_err_shape": ("ValueError", setattr_("errors2", np.asarray([[1, 2, 3], [4, 5, 6]])), None),
            "idiv_any": ("maybe", idiv(c), None),
        }
        steps = []
        for op in p["ops"]:
            expect, thunk, other = table[op]
            before = full(E, h)
            ob = full(E, other) if other is not None else None
            r = E.attempt(thunk)
            steps.append({"op": op, "expect": expect, "outcome": r.name if isinstance(r, Raised) else "ok", "before": before, "after": full(E, h),
                          "other_before": ob, "other_after": full(E, other) if other is not None else None})
        return {"steps": steps}


@register
class C18Collection(_Base):
    group = "collection"
    bounds_doc = "HistogramCollection construction / add with members of different binnings: refused, collection and members unchanged"

    def instances(self, tier):
        for op in ("init_diff", "add_diff", "add_same", "init_empty", "empty_binning_add_diff", "empty_binning_add_same", "create_ok", "create_bad_weights", "create_adaptive_grow"):
            yield f"col-{op}", dict(op=op)

    def declare(self, cx, p):
        x = {"f": declare_cells(cx, "f", [2], "int"), "g": declare_cells(cx, "g", [2], "int"), "e": declare_edges(cx, "e", 2)}
        if cx.sym:
            cx.assume(*[z3.And(cx.t(t) >= -100, cx.t(t) <= 100) for t in x["e"]])
        if p["op"] == "create_adaptive_grow":
            x["v"] = cx.pyfloat("v")
            if cx.sym:
                cx.assume(x["v"] >= -3, x["v"] < 6)
        return x

    def drive(self, E, p, x):
        np = E.np
        H1 = E.mod("physt.histogram1d").Histogram1D
        HC = E.mod("physt.histogram_collection").HistogramCollection
        if p["op"] == "create_adaptive_grow":
            # a collection over an ADAPTIVE binning: a second member whose data make the bins grow - the first member stays well-formed
            FWB = E.mod("physt.binnings").FixedWidthBinning
            col = HC(binning=FWB(bin_width=1.0, adaptive=True))
            first = col.create("first", [0.5, 1.5])
            r = E.attempt(col.create, "second", [x["v"]])
            return {"outcome": r.name if isinstance(r, Raised) else "ok", "a": full(E, first), "n": len(col),
                    "second": None if isinstance(r, Raised) else full(E, r)}
        a = H1(np.asarray(x["e"]), np.asarray(x["f"], dtype=int), name="a")
        b_same = H1(a.binning, np.asarray(x["g"], dtype=int), name="b")
        b_diff = H1(np.asarray([1000.0, 1001.0, 1002.0]), np.asarray(x["g"], dtype=int), name="c")
        op = p["op"]
        if op == "init_diff":
            r = E.attempt(HC, a, b_diff)
            return {"outcome": r.name if isinstance(r, Raised) else "ok", "a": full(E, a), "n": None}
        if op == "init_empty":
            r = E.attempt(HC)
            return {"outcome": r.name if isinstance(r, Raised) else "ok", "a": full(E, a), "n": None}
        if op.startswith("empty_binning"):
            # a collection created empty, with the binning its members must have
            col = HC(binning=a.binning)
            r = E.attempt(col.add, b_diff if op.endswith("diff") else b_same)
            return {"outcome": r.name if isinstance(r, Raised) else "ok", "a": full(E, a), "n": len(col)}
        col = HC(a)
        if op.startswith("create"):
            # a member created from data: a refused creation (3 values, 2 weights) leaves no stray member behind
            mid = (x["e"][0] + x["e"][1]) / 2.0
            kw = {"weights": [1, 2]} if op == "create_bad_weights" else {"weights": [1, 2, 3]}
            r = E.attempt(col.create, "new", [mid, mid, mid], **kw)
            return {"outcome": r.name if isinstance(r, Raised) else "ok", "a": full(E, a), "n": len(col), "has_new": "new" in [h.name for h in col.histograms],
                    "new_total": None if isinstance(r, Raised) else r.total}
        r = E.attempt(col.add, b_diff if op == "add_diff" else b_same)
        return {"outcome": r.name if isinstance(r, Raised) else "ok", "a": full(E, a), "n": len(col)}

    def oracle(self, cx, p, x, obs):
        yield "no_harness_exception", obs.get("raised") is None
        if obs.get("raised") is not None:
            return
        op = p["op"]
        if op == "create_adaptive_grow":
            yield "accepted", obs["outcome"] == "ok" and obs["n"] == 2
            a = obs["a"]
            yield "earlier_member_wellformed", a["fshape"] == a["eshape"] == [len(a["bins"][0])]
            yield "earlier_member_keeps_its_data", zsum(cx.t(v) for v in a["freq"]) == 2
            if obs["second"] is not None:
                b = obs["second"]
                yield "new_member_wellformed", b["fshape"] == b["eshape"] == [len(b["bins"][0])] and zsum(cx.t(v) for v in b["freq"]) == 1
            return
        if op in ("init_diff", "init_empty", "add_diff", "empty_binning_add_diff"):
            yield "refused", obs["outcome"] == "ValueError"
            if op == "add_diff":
                yield "collection_unchanged", obs["n"] == 1
            if op == "empty_binning_add_diff":
                yield "collection_unchanged", obs["n"] == 0
        elif op == "create_bad_weights":
            yield "refused", obs["outcome"] == "ValueError"
            yield "collection_unchanged", obs["n"] == 1 and obs["has_new"] is False
        elif op == "create_ok":
            yield "accepted", obs["outcome"] == "ok" and obs["n"] == 2 and obs["has_new"] is True
            yield "created_member_holds_the_data", cx.eq(obs["new_total"], 6)
        elif op == "empty_binning_add_same":
            yield "accepted", obs["outcome"] == "ok" and obs["n"] == 1
        else:
            yield "accepted", obs["outcome"] == "ok" and obs["n"] == 2
        yield "member_unchanged", z3.And([cx.eq(obs["a"]["freq"][j], cx.t(x["f"][j])) for j in range(2)])


@register
class C18Adaptive2D(_Base):
    group = "adaptive2d"
    bounds_doc = "adaptive fixed-width 2D histogram (1x2 / 2x1 bins, width 1) in a symbolic state x one fill / fill_n of a symbolic point within 2 widths of the range (growth along either axis), or an invalid fill (wrong number of coordinates, wrong weights shape): well-formed afterwards, every earlier cell keeps its interval and content, a refused call changes nothing"

    def instances(self, tier):
        for shape in ((1, 2), (2, 1)):
            for op in ("fill", "fill_n", "fill_wrong_len", "filln_wshape"):
                yield f"2da-S{shape[0]}x{shape[1]}-{op}", dict(shape=list(shape), op=op)

    def declare(self, cx, p):
        shape = p["shape"]
        x = {"f": declare_cells(cx, "f", shape, "int"), "q": declare_cells(cx, "q", shape, "int"), "v": [cx.pyfloat("vx"), cx.pyfloat("vy")], "w": cx.pyint("w", 0, 3)}
        if cx.sym:
            cx.assume(*[z3.And(cx.t(x["v"][k]) >= -2, cx.t(x["v"][k]) < shape[k] + 2) for k in range(2)])
        return x

    def drive(self, E, p, x):
        np = E.np
        H2 = E.mod("physt.histogram_nd").Histogram2D
        FWB = E.mod("physt.binnings").FixedWidthBinning
        shape = p["shape"]
        h = H2([FWB(bin_width=1.0, bin_count=shape[k], bin_times_min=0, adaptive=True) for k in range(2)], np.asarray(nested(x["f"], shape), dtype=int),
               errors2=np.asarray(nested(x["q"], shape), dtype=int))
        v, w = x["v"], x["w"]
        thunk = {"fill": lambda: h.fill([v[0], v[1]], w), "fill_n": lambda: h.fill_n(np.asarray([[v[0], v[1]]]), weights=np.asarray([w])),
                 "fill_wrong_len": lambda: h.fill([v[0], v[1], v[0]]), "filln_wshape": lambda: h.fill_n(np.asarray([[v[0], v[1]]]), weights=np.asarray([1, 2]))}[p["op"]]
        before = full(E, h)
        r = E.attempt(thunk)
        return {"steps": [{"op": p["op"], "expect": "ok" if p["op"] in ("fill", "fill_n") else "ValueError", "outcome": r.name if isinstance(r, Raised) else "ok", "before": before, "after": full(E, h),
                           "other_before": None, "other_after": None}]}

    def oracle(self, cx, p, x, obs):
        yield "no_harness_exception", obs.get("raised") is None
        if obs.get("raised") is not None:
            return
        st = obs["steps"][0]
        yield "wellformed", self._wellformed(cx, st["after"])
        yield "outcome", (st["outcome"] == "ok") if st["expect"] == "ok" else (st["outcome"] in ("ValueError", "TypeError", "IndexError"))
        a, b = st["before"], st["after"]
        shape = p["shape"]
        if st["outcome"] != "ok":
            # the bins may already have grown; every old cell keeps its interval, content and squared error, every other cell is empty
            ok = len(b["bins"]) == 2 and b["fshape"] == [len(b["bins"][0]), len(b["bins"][1])] == b["eshape"]
            yield "shape_consistent_after_raise", ok
            if ok:
                conj = []
                old = {}
                for i, (l0, r0) in enumerate(a["bins"][0]):
                    for j, (l1, r1) in enumerate(a["bins"][1]):
                        old[(i, j)] = (cx.t(l0), cx.t(r0), cx.t(l1), cx.t(r1), a["freq"][i][j], a["err2"][i][j])
                for (l0, r0, l1, r1, fo, eo) in old.values():
                    conj.append(z3.Or([z3.And(cx.t(m0) == l0, cx.t(n0) == r0, cx.t(m1) == l1, cx.t(n1) == r1, self._same_num(cx, b["freq"][bi][bj], fo), self._same_num(cx, b["err2"][bi][bj], eo))
                                       for bi, (m0, n0) in enumerate(b["bins"][0]) for bj, (m1, n1) in enumerate(b["bins"][1])]))
                for bi, (m0, n0) in enumerate(b["bins"][0]):
                    for bj, (m1, n1) in enumerate(b["bins"][1]):
                        is_old = z3.Or([z3.And(cx.t(m0) == l0, cx.t(m1) == l1) for (l0, r0, l1, r1, fo, eo) in old.values()])
                        conj.append(z3.Or(is_old, z3.And(self._same_num(cx, b["freq"][bi][bj], 0), self._same_num(cx, b["err2"][bi][bj], 0))))
                conj += [self._same_num(cx, u, v_) for u, v_ in zip(flat(a["missed"]), flat(b["missed"]))]
                yield "unchanged_after_raise", z3.And(conj)
            return
        # every old cell [i, i+1) x [j, j+1) still exists and holds its old content (+ the weight if the point fell into it)
        if len(b["bins"]) != 2 or b["fshape"] != [len(b["bins"][0]), len(b["bins"][1])]:
            yield "shape_consistent", False
            return
        v = [cx.t(t) for t in x["v"]]
        w = cx.t(x["w"])
        idxs = product_indices(shape)
        f = {idx: cx.t(t) for idx, t in zip(idxs, x["f"])}
        conj = []
        for (i, j), old in f.items():
            hits = []
            for bi, (l0, r0) in enumerate(b["bins"][0]):
                for bj, (l1, r1) in enumerate(b["bins"][1]):
                    inside = z3.And(v[0] >= i, v[0] < i + 1, v[1] >= j, v[1] < j + 1)
                    hits.append(z3.And(cx.t(l0) == i, cx.t(r0) == i + 1, cx.t(l1) == j, cx.t(r1) == j + 1, cx.t(b["freq"][bi][bj]) == old + z3.If(inside, w, 0)))
            conj.append(z3.Or(hits))
        yield "old_cells_keep_interval_and_content", z3.And(conj)
        yield "total", zsum([cx.t(t) for row in b["freq"] for t in row]) == zsum(f.values()) + w
        yield "nothing_missed", z3.And([cx.eq(m, 0) for m in flat(b["missed"])])
