"""C06 - scaling, division and normalisation are exactly linear."""
from __future__ import annotations

import z3

from symx.api import Harness, Raised, register

from .common import declare_cells, declare_edges, getcell, nested, product_indices, snap1d, snapnd, zsum


def _stats_obs(E, s):
    return {"sum": s.sum, "sum2": s.sum2, "min": s.min, "max": s.max, "weight": s.weight,
            "mean": E.attempt(s.mean), "variance": E.attempt(s.variance)}


def _scalar(cx, kind, name="c"):
    if kind == "pyint":
        return cx.pyint(name, -4, 4)
    if kind == "npint":
        return cx.int(name, -4, 4)
    if kind == "pyfloat":
        return cx.pyfloat(name)
    return cx.real(name)


def _mk1d(E, p, x, with_stats=True):
    np = E.np
    H1 = E.mod("physt.histogram1d").Histogram1D
    dt = int if p["kind"] == "int" else float
    kw = {}
    if with_stats:
        St = E.mod("physt.statistics").Statistics
        s = x["s"]
        kw["stats"] = St(sum=s[0], sum2=s[1], min=s[2], max=s[3], weight=s[4])
    return H1(np.asarray(x["e"]), np.asarray(x["f"], dtype=dt), np.asarray(x["q"], dtype=dt), underflow=x["u"], overflow=x["o"], name="n", **kw)


def _declare1d(cx, p, M):
    k = p["kind"]
    x = {"f": declare_cells(cx, "f", [M], k), "q": declare_cells(cx, "q", [M], k), "e": declare_edges(cx, "e", M),
         "u": cx.int("u", 0) if k == "int" else cx.real("u"), "o": cx.int("o", 0) if k == "int" else cx.real("o")}
    if cx.sym and k != "int":
        cx.assume(x["u"] >= 0, x["o"] >= 0)
    x["s"] = [cx.pyfloat(n) for n in ("ssum", "ssum2", "smin", "smax", "sweight")]
    if cx.sym:
        cx.assume(x["s"][4] > 0, x["s"][2] <= x["s"][3])
    return x


@register
class C06Scalar1D(Harness):
    prop = "C06"
    group = "scalar1d"
    bounds_doc = "1D histograms (M<=2 quick / M<=3) with symbolic contents, errors2, under/overflow and statistics; scalar c symbolic (python int/float, numpy int64/float64), c != 0, sign free; ops: h*c, c*h, h*=c, h/c, h/=c, (h*c)/c, (h*c1)*c2 vs h*(c1*c2)"

    def instances(self, tier):
        ops = ["mul", "rmul", "imul", "div", "idiv", "muldiv", "chain"]
        kinds = ["pyint", "pyfloat", "npfloat", "npint"]
        for M in ((2,) if tier == "quick" else (1, 3)):
            for op in ops:
                for sk in kinds:
                    for hk in ("int", "real"):
                        if tier == "quick" and sk in ("npint",) and op not in ("mul", "div"):
                            continue
                        yield f"s1d-M{M}-{op}-{sk}-h{hk}", dict(M=M, op=op, sk=sk, kind=hk)
            for op in ("mul", "imul", "div", "idiv"):
                yield f"s1d-M{M}-{op}-pyint-nokeep", dict(M=M, op=op, sk="pyint", kind="int", toggle_keep=True)

    def declare(self, cx, p):
        x = _declare1d(cx, p, p["M"])
        x["c"] = _scalar(cx, p["sk"])
        if cx.sym:
            cx.assume(x["c"] != 0)
            cx.define("c_negative", cx.t(x["c"]) < 0)
        if p["op"] == "chain":
            x["c2"] = _scalar(cx, p["sk"], "c2")
            if cx.sym:
                cx.assume(x["c2"] != 0)
        return x

    def drive(self, E, p, x):
        h = _mk1d(E, p, x)
        if p.get("toggle_keep"):
            h.keep_missed = False     # the recorded under/overflow stay in the histogram; only tracking is switched off
        before = snap1d(E, h)
        c, op = x["c"], p["op"]

        def run():
            if op == "mul":
                return h * c
            if op == "rmul":
                return c * h
            if op == "div":
                return h / c
            if op == "imul":
                g = h.copy()
                g *= c
                return g
            if op == "idiv":
                g = h.copy()
                g /= c
                return g
            if op == "muldiv":
                return (h * c) / c
            return (h * c) * x["c2"]

        r = E.attempt(run)
        obs = {"before": before, "after": snap1d(E, h), "after_stats": _stats_obs(E, h.statistics)}
        if isinstance(r, Raised):
            obs["raised"] = r
            return obs
        obs["cls"] = type(r).__name__
        if obs["cls"] != "Histogram1D":
            return obs
        obs["res"] = snap1d(E, r)
        obs["stats"] = _stats_obs(E, r.statistics)
        obs["name"] = r.name
        if op == "chain":
            alt = E.attempt(lambda: h * (c * x["c2"]))
            obs["alt"] = snap1d(E, alt) if not isinstance(alt, Raised) else {"raised": alt}
        return obs

    def oracle(self, cx, p, x, obs):
        M, op = p["M"], p["op"]
        f, q = [cx.t(i) for i in x["f"]], [cx.t(i) for i in x["q"]]
        u, o = cx.t(x["u"]), cx.t(x["o"])
        c = cx.t(x["c"])
        s = [cx.t(i) for i in x["s"]]
        # the operand never changes
        aft = obs["after"]
        yield "operand_unchanged", z3.And([cx.eq(aft["freq"][j], f[j]) for j in range(M)] + [cx.eq(aft["err2"][j], q[j]) for j in range(M)]
                                          + [cx.eq(aft["missed"][0], u), cx.eq(aft["missed"][1], o), z3.BoolVal(aft["dtype"] == obs["before"]["dtype"])]
                                          + [cx.t(aft["bins"][j][0]) == cx.t(x["e"][j]) for j in range(M)])
        yield "operand_stats_unchanged", z3.And([cx.eq(obs["after_stats"][k], s[i]) for i, k in enumerate(("sum", "sum2", "min", "max", "weight"))])
        if op in ("mul", "rmul", "imul"):
            factor, neg = c, c < 0
        elif op in ("div", "idiv"):
            factor, neg = 1 / z3.ToReal(c) if c.sort() == z3.IntSort() else 1 / c, c < 0
        elif op == "muldiv":
            factor, neg = z3.RealVal(1), c < 0
        else:
            c2 = cx.t(x["c2"])
            factor, neg = c * c2, z3.Or(c < 0, c * c2 < 0)
        raised = obs.get("raised")
        some_content = z3.Or([v > 0 for v in f])
        if raised is not None:
            yield "refused_only_negative", z3.And(neg, some_content, z3.BoolVal(raised.name in ("ValueError", "TypeError")))
            return
        yield "returns_histogram", obs["cls"] == "Histogram1D"
        if obs["cls"] != "Histogram1D":
            return
        if op == "chain":
            yield "negative_factor_refused", z3.Not(z3.And(z3.Or(c < 0, c * cx.t(x["c2"]) < 0), some_content, c < 0))
        else:
            yield "negative_factor_refused", z3.Not(z3.And(neg, some_content))
        res = obs["res"]
        for j in range(M):
            yield f"content[{j}]", cx.eq(res["freq"][j], factor * f[j])
            yield f"err2[{j}]", cx.eq(res["err2"][j], factor * factor * q[j])
            yield f"bins[{j}]", z3.And(cx.t(res["bins"][j][0]) == cx.t(x["e"][j]), cx.t(res["bins"][j][1]) == cx.t(x["e"][j + 1]))
        if p.get("toggle_keep"):
            yield "recorded_missed_scaled", z3.And(cx.eq(res["missed"][0], factor * u), cx.eq(res["missed"][1], factor * o))
        else:
            yield "underflow", cx.eq(res["under"], factor * u)
            yield "overflow", cx.eq(res["over"], factor * o)
        yield "dtype_consistent", res["dtype"] == res["fdtype"] == res["edtype"]
        yield "name_kept", obs["name"] == "n"
        if op in ("div", "idiv", "muldiv") or p["sk"] in ("pyfloat", "npfloat") or p["kind"] == "real":
            yield "float_dtype", res["dtype"].startswith("float")
        else:
            yield "int_dtype", res["dtype"].startswith("int")
        st = obs["stats"]
        pos = factor > 0
        ok_vals = all(cx.finite(st[k]) for k in ("weight", "min", "max", "mean", "variance", "sum", "sum2"))
        yield "stats_finite", ok_vals or z3.Not(pos)
        if ok_vals:
            yield "stats_weight", z3.Implies(pos, cx.t(st["weight"]) == factor * s[4])
            yield "stats_min_max", z3.Implies(pos, z3.And(cx.t(st["min"]) == s[2], cx.t(st["max"]) == s[3]))
            # sum, sum2 and weight all scale by the same positive factor  =>  mean and variance are invariant
            yield "stats_moments_scale_linearly", z3.Implies(pos, z3.And(cx.t(st["sum"]) == factor * s[0], cx.t(st["sum2"]) == factor * s[1]))
            if op in ("mul", "rmul", "imul", "muldiv"):
                yield "stats_mean", z3.Implies(pos, cx.t(st["mean"]) * s[4] == s[0])
                yield "stats_variance", z3.Implies(pos, cx.t(st["variance"]) * s[4] * s[4] == s[1] * s[4] - s[0] * s[0])
        if op == "chain":
            alt = obs["alt"]
            if "raised" not in alt:
                yield "chain_equals_product", z3.And([cx.eq(res["freq"][j], cx.t(alt["freq"][j])) for j in range(M)] + [cx.eq(res["err2"][j], cx.t(alt["err2"][j])) for j in range(M)]
                                                     + [cx.eq(res["under"], cx.t(alt["under"]))])


@register
class C06ScalarND(Harness):
    prop = "C06"
    group = "scalarnd"
    bounds_doc = "2D/3D histograms with symbolic contents/errors2/missed; h*c, c*h, h/c, in-place variants"

    def instances(self, tier):
        for shape in ([(2, 2)] if tier == "quick" else [(2, 2), (1, 3), (2, 1, 2)]):
            for op in ("mul", "rmul", "imul", "div", "idiv"):
                for sk in ("pyint", "pyfloat") if tier == "quick" else ("pyint", "pyfloat", "npfloat", "npint"):
                    yield f"snd-S{'x'.join(map(str, shape))}-{op}-{sk}", dict(shape=list(shape), op=op, sk=sk, keep=True)
                # missed weight recorded, tracking switched off (keep_missed=False): scaling still applies to what is recorded
                yield f"snd-S{'x'.join(map(str, shape))}-{op}-pyint-nokeep", dict(shape=list(shape), op=op, sk="pyint", keep=False)

    def declare(self, cx, p):
        shape = p["shape"]
        x = {"f": declare_cells(cx, "f", shape, "int"), "q": declare_cells(cx, "q", shape, "int"), "m": cx.int("m", 0),
             "e": [declare_edges(cx, f"e{k}_", shape[k]) for k in range(len(shape))], "c": _scalar(cx, p["sk"])}
        if cx.sym:
            cx.assume(x["c"] > 0)
        return x

    def drive(self, E, p, x):
        np = E.np
        nd = E.mod("physt.histogram_nd")
        shape = p["shape"]
        D = len(shape)
        cls = nd.Histogram2D if D == 2 else nd.HistogramND
        h = cls([np.asarray(x["e"][k]) for k in range(D)], np.asarray(nested(x["f"], shape), dtype=int), errors2=np.asarray(nested(x["q"], shape), dtype=int), missed=x["m"],
                keep_missed=p.get("keep", True))
        c, op = x["c"], p["op"]

        def run():
            if op == "mul":
                return h * c
            if op == "rmul":
                return c * h
            if op == "div":
                return h / c
            g = h.copy()
            if op == "imul":
                g *= c
            else:
                g /= c
            return g

        r = E.attempt(run)
        obs = {"after": snapnd(E, h)}
        if isinstance(r, Raised):
            obs["raised"] = r
        else:
            obs["cls"] = type(r).__name__
            if hasattr(r, "frequencies"):
                obs["res"] = snapnd(E, r)
        return obs

    def oracle(self, cx, p, x, obs):
        shape = p["shape"]
        idxs = product_indices(shape)
        yield "no_exception", obs.get("raised") is None
        if obs.get("raised") is not None:
            return
        yield "returns_histogram", "res" in obs
        if "res" not in obs:
            return
        c = cx.t(x["c"])
        factor = c if p["op"] in ("mul", "rmul", "imul") else 1 / (z3.ToReal(c) if c.sort() == z3.IntSort() else c)
        res, aft = obs["res"], obs["after"]
        for idx, fv, qv in zip(idxs, x["f"], x["q"]):
            tag = ",".join(map(str, idx))
            yield f"content[{tag}]", cx.eq(getcell(res["freq"], idx), factor * cx.t(fv))
            yield f"err2[{tag}]", cx.eq(getcell(res["err2"], idx), factor * factor * cx.t(qv))
            yield f"operand[{tag}]", z3.And(cx.eq(getcell(aft["freq"], idx), cx.t(fv)), cx.eq(getcell(aft["err2"], idx), cx.t(qv)))
        yield "missed", cx.eq(res["missed"], factor * cx.t(x["m"]))
        yield "operand_missed", cx.eq(aft["missed"], cx.t(x["m"]))
        yield "class", obs["cls"] == ("Histogram2D" if len(shape) == 2 else "HistogramND")
        yield "dtype_consistent", res["dtype"] == res["fdtype"] == res["edtype"]


@register
class C06Normalize(Harness):
    prop = "C06"
    group = "normalize"
    bounds_doc = "normalize (percent / inplace) on 1D (M<=3) and 2D; partial_normalize along both axes (2x2, 2x3) incl. all-zero rows; HistogramCollection.normalize_bins / normalize_all with 2 members"

    def instances(self, tier):
        for M in (2, 3):
            for percent in (False, True):
                for inplace in (False, True):
                    for hk in ("int", "real"):
                        if tier == "quick" and M == 3 and hk == "int":
                            continue
                        yield f"norm1d-M{M}-p{int(percent)}-i{int(inplace)}-h{hk}", dict(mode="norm1d", M=M, percent=percent, inplace=inplace, kind=hk)
        for shape in ([(2, 2)] if tier == "quick" else [(2, 2), (2, 3)]):
            for axis in (0, 1):
                for inplace in (False, True):
                    yield f"partial-S{'x'.join(map(str, shape))}-ax{axis}-i{int(inplace)}", dict(mode="partial", shape=list(shape), axis=axis, inplace=inplace)
                # real (weighted / already scaled) contents: line totals may lie anywhere, e.g. strictly between 0 and 1
                yield f"partial-S{'x'.join(map(str, shape))}-ax{axis}-hreal", dict(mode="partial", shape=list(shape), axis=axis, inplace=False, kind="real")
            yield f"norm2d-S{'x'.join(map(str, shape))}", dict(mode="norm2d", shape=list(shape))
            yield f"norm2d-S{'x'.join(map(str, shape))}-hreal", dict(mode="norm2d", shape=list(shape), kind="real")
        for M in ((2,) if tier == "quick" else (2, 3)):
            for inplace in (False, True):
                yield f"colbins-M{M}-i{int(inplace)}", dict(mode="colbins", M=M, inplace=inplace)
                yield f"colall-M{M}-i{int(inplace)}", dict(mode="colall", M=M, inplace=inplace)

    def declare(self, cx, p):
        m = p["mode"]
        if m == "norm1d":
            x = _declare1d(cx, dict(kind=p["kind"]), p["M"])
            if cx.sym:
                cx.assume(zsum(cx.t(i) for i in x["f"]) > 0)
            return x
        if m in ("partial", "norm2d"):
            shape = p["shape"]
            x = {"f": declare_cells(cx, "f", shape, p.get("kind", "int")), "q": declare_cells(cx, "q", shape, p.get("kind", "int")),
                 "e": [declare_edges(cx, f"e{k}_", shape[k]) for k in range(2)]}
            if cx.sym and m == "norm2d":
                cx.assume(zsum(cx.t(i) for i in x["f"]) > 0)
            return x
        M = p["M"]
        x = {"f1": declare_cells(cx, "f", [M], "int"), "f2": declare_cells(cx, "g", [M], "int"), "e": declare_edges(cx, "e", M)}
        if cx.sym:
            if m == "colbins":
                cx.assume(*[cx.t(a) + cx.t(b) > 0 for a, b in zip(x["f1"], x["f2"])])
            else:
                cx.assume(zsum(cx.t(i) for i in x["f1"]) > 0, zsum(cx.t(i) for i in x["f2"]) > 0)
        return x

    def drive(self, E, p, x):
        np = E.np
        m = p["mode"]
        if m == "norm1d":
            h = _mk1d(E, p, x, with_stats=False)
            r = E.attempt(h.normalize, inplace=p["inplace"], percent=p["percent"])
            obs = {"after": snap1d(E, h)}
            if isinstance(r, Raised):
                obs["raised"] = r
            else:
                obs["res"] = snap1d(E, r)
                obs["same"] = r is h
            return obs
        if m in ("partial", "norm2d"):
            H2 = E.mod("physt.histogram_nd").Histogram2D
            shape = p["shape"]
            dt = float if p.get("kind") == "real" else int
            h = H2([np.asarray(x["e"][k]) for k in range(2)], np.asarray(nested(x["f"], shape), dtype=dt), errors2=np.asarray(nested(x["q"], shape), dtype=dt))
            r = E.attempt(h.partial_normalize, p["axis"], inplace=p["inplace"]) if m == "partial" else E.attempt(h.normalize)
            obs = {"after": snapnd(E, h)}
            if isinstance(r, Raised):
                obs["raised"] = r
            else:
                obs["res"] = snapnd(E, r)
                obs["same"] = r is h
            return obs
        H1 = E.mod("physt.histogram1d").Histogram1D
        HC = E.mod("physt.histogram_collection").HistogramCollection
        SB = E.mod("physt.binnings").StaticBinning
        pairs = [[x["e"][j], x["e"][j + 1]] for j in range(p["M"])]
        b = SB(pairs)
        a1 = H1(b, np.asarray(x["f1"], dtype=int), name="a")
        a2 = H1(b, np.asarray(x["f2"], dtype=int), name="b")
        col = HC(a1, a2)
        r = E.attempt(col.normalize_bins if m == "colbins" else col.normalize_all, inplace=p["inplace"])
        obs = {"orig": [snap1d(E, a1), snap1d(E, a2)]}
        if isinstance(r, Raised):
            obs["raised"] = r
        else:
            obs["res"] = [snap1d(E, hh) for hh in r.histograms]
            obs["same"] = r is col
        return obs

    def oracle(self, cx, p, x, obs):
        m = p["mode"]
        yield "no_exception", obs.get("raised") is None
        if obs.get("raised") is not None:
            return
        res = obs["res"]
        if m == "norm1d":
            M = p["M"]
            f, q = [cx.t(i) for i in x["f"]], [cx.t(i) for i in x["q"]]
            T = zsum(f)
            scale = 100 if p["percent"] else 1
            # in-place percent divides by total * 0.01; the binary64 literal 0.01 is not 1/100, so equality is up to 1e-12 there
            eq = cx.approx if (p["percent"] and p["inplace"]) else cx.eq
            yield "total", eq(res["total"], z3.RealVal(scale))
            Tr = z3.ToReal(T) if T.sort() == z3.IntSort() else T
            for j in range(M):
                fr = z3.ToReal(f[j]) if f[j].sort() == z3.IntSort() else f[j]
                yield f"proportion[{j}]", eq(res["freq"][j], scale * fr / Tr)
                fq = z3.ToReal(q[j]) if q[j].sort() == z3.IntSort() else q[j]
                yield f"err2[{j}]", eq(res["err2"][j], scale * scale * fq / (Tr * Tr))
            uu = cx.t(x["u"])
            yield "underflow", eq(res["under"], scale * (z3.ToReal(uu) if uu.sort() == z3.IntSort() else uu) / Tr)
            yield "float_dtype", res["dtype"].startswith("float") and res["dtype"] == res["fdtype"] == res["edtype"]
            if p["inplace"]:
                yield "inplace_returns_self", obs["same"] is True
            else:
                yield "operand_unchanged", z3.And([cx.eq(obs["after"]["freq"][j], f[j]) for j in range(M)] + [z3.BoolVal(obs["same"] is False)])
            return
        if m in ("partial", "norm2d"):
            shape = p["shape"]
            idxs = product_indices(shape)
            toreal = (lambda t: t) if p.get("kind") == "real" else z3.ToReal
            f = {idx: toreal(cx.t(v)) for idx, v in zip(idxs, x["f"])}
            q = {idx: toreal(cx.t(v)) for idx, v in zip(idxs, x["q"])}
            if m == "norm2d":
                T = zsum(f.values())
                yield "total", cx.eq(res["total"], z3.RealVal(1))
                for idx in idxs:
                    yield f"proportion[{idx}]", cx.eq(getcell(res["freq"], idx), f[idx] / T)
                return
            ax = p["axis"]  # numpy sense: sums run along `ax`; each line along that axis is normalised
            other = 1 - ax
            for o in range(shape[other]):
                line = [idx for idx in idxs if idx[other] == o]
                S = zsum(f[i] for i in line)
                got = zsum(cx.t(getcell(res["freq"], i)) for i in line)
                yield f"line_sum[{o}]", z3.If(S > 0, got == 1, got == 0)
                for i in line:
                    yield f"proportion[{i}]", z3.Implies(S > 0, z3.And(cx.eq(getcell(res["freq"], i), f[i] / S), cx.eq(getcell(res["err2"], i), q[i] / (S * S))))
            yield "float_dtype", res["dtype"].startswith("float") and res["dtype"] == res["fdtype"] == res["edtype"]
            if p["inplace"]:
                yield "inplace_returns_self", obs["same"] is True
            else:
                yield "operand_unchanged", z3.And([cx.eq(getcell(obs["after"]["freq"], i), f[i]) for i in idxs] + [z3.BoolVal(obs["same"] is False and obs["after"]["dtype"] == ("float64" if p.get("kind") == "real" else "int64"))])
            return
        M = p["M"]
        f1, f2 = [z3.ToReal(cx.t(i)) for i in x["f1"]], [z3.ToReal(cx.t(i)) for i in x["f2"]]
        if m == "colbins":
            for j in range(M):
                yield f"shares_sum_to_one[{j}]", cx.t(res[0]["freq"][j]) + cx.t(res[1]["freq"][j]) == 1
                yield f"share[{j}]", z3.And(cx.eq(res[0]["freq"][j], f1[j] / (f1[j] + f2[j])), cx.eq(res[1]["freq"][j], f2[j] / (f1[j] + f2[j])))
        else:
            yield "totals", z3.And(cx.eq(res[0]["total"], z3.RealVal(1)), cx.eq(res[1]["total"], z3.RealVal(1)))
            for j in range(M):
                yield f"proportion[{j}]", z3.And(cx.eq(res[0]["freq"][j], f1[j] / zsum(f1)), cx.eq(res[1]["freq"][j], f2[j] / zsum(f2)))
        if not p["inplace"]:
            yield "members_unchanged", z3.And([cx.eq(obs["orig"][0]["freq"][j], f1[j]) for j in range(M)] + [cx.eq(obs["orig"][1]["freq"][j], f2[j]) for j in range(M)]
                                              + [z3.BoolVal(obs["same"] is False)])
        else:
            yield "inplace_returns_self", obs["same"] is True


@register
class C06Refusals(Harness):
    prop = "C06"
    group = "refusals"
    bounds_doc = "h*h, h/h, c/h, array and list operands for * and / (free arithmetics off): TypeError and operand unchanged"

    def instances(self, tier):
        for op in ("hh_mul", "hh_div", "c_over_h", "arr_mul", "arr_div", "list_mul", "arr_imul", "arr_idiv"):
            yield f"refuse-{op}", dict(op=op, M=2, kind="int")

    def declare(self, cx, p):
        x = _declare1d(cx, p, p["M"])
        x["a"] = cx.reals("a", p["M"])
        return x

    def drive(self, E, p, x):
        np = E.np
        h = _mk1d(E, p, x, with_stats=False)
        g = h.copy()
        arr = np.asarray(x["a"])
        op = p["op"]

        def run():
            if op == "hh_mul":
                return h * g
            if op == "hh_div":
                return h / g
            if op == "c_over_h":
                return 2 / h
            if op == "arr_mul":
                return h * arr
            if op == "arr_div":
                return h / arr
            if op == "list_mul":
                return h * [1, 2]
            if op == "arr_imul":
                hh = h
                hh *= arr
                return hh
            hh = h
            hh /= arr
            return hh

        r = E.attempt(run)
        return {"res": {"raised": r} if isinstance(r, Raised) else {"type": type(r).__name__}, "after": snap1d(E, h)}

    def oracle(self, cx, p, x, obs):
        r = obs["res"]
        yield "refused_with_TypeError", "raised" in r and r["raised"].name == "TypeError"
        M = p["M"]
        aft = obs["after"]
        yield "operand_unchanged", z3.And([cx.eq(aft["freq"][j], cx.t(x["f"][j])) for j in range(M)] + [cx.eq(aft["err2"][j], cx.t(x["q"][j])) for j in range(M)]
                                          + [cx.eq(aft["under"], cx.t(x["u"])), z3.BoolVal(aft["dtype"] == "int64")])
