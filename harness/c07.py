"""C07 - every binning schema is well-formed, covers its data and obeys its rule."""
from __future__ import annotations

import itertools
import math

import z3

from symx.api import Harness, Raised, register
from symx.scalars import lift_num

from .common import ATOL, RTOL, consecutive, declare_edges, rising_pairs, tolerance_band, zabs, zsum


def _l(a):
    return a.tolist() if hasattr(a, "tolist") else a


@register
class C07Validation(Harness):
    prop = "C07"
    group = "validation"
    bounds_doc = "StaticBinning / NumpyBinning / as_binning / static_binning / make_bin_array on ARBITRARY symbolic edge arrays (not assumed rising): M<=3 pairs or M+1 edges, plus wrongly shaped inputs"

    def instances(self, tier):
        for M in (1, 2, 3) if tier != "quick" else (1, 2):
            for form in ("pairs_static", "edges_static", "edges_numpy", "as_binning_pairs", "as_binning_edges", "static_binning_fn"):
                yield f"val-{form}-M{M}", dict(M=M, form=form)
        for bad in ("shape_n3", "ndim3", "scalar"):
            yield f"val-bad-{bad}", dict(M=2, form=bad)
        # fixed-width binnings with an ARBITRARY symbolic width: accepted iff the width is positive (zero-width bins are not rising)
        for form in ("fixed_ctor", "fixed_factory", "integer_factory"):
            yield f"val-{form}-width", dict(M=2, form=form)

    def declare(self, cx, p):
        M = p["M"]
        if p["form"] in ("fixed_ctor", "fixed_factory", "integer_factory"):
            return {"w": cx.pyfloat("w"), "t": cx.pyint("t", -2, 2)}
        if p["form"].startswith("pairs") or p["form"] in ("as_binning_pairs", "static_binning_fn"):
            return {"l": cx.reals("l", M), "r": cx.reals("r", M)}
        return {"e": cx.reals("e", M + 1)}

    def drive(self, E, p, x):
        np = E.np
        B = E.mod("physt.binnings")
        form = p["form"]
        if form == "shape_n3":
            r = E.attempt(B.StaticBinning, np.asarray([[0.0, 1.0, 2.0], [2.0, 3.0, 4.0]]))
        elif form == "ndim3":
            r = E.attempt(B.StaticBinning, np.asarray([[[0.0, 1.0]], [[1.0, 2.0]]]))
        elif form == "scalar":
            r = E.attempt(B.as_binning, 5)
        elif form in ("fixed_ctor", "fixed_factory", "integer_factory"):
            if form == "fixed_ctor":
                r = E.attempt(B.FixedWidthBinning, bin_width=x["w"], bin_count=2, bin_times_min=x["t"])
            elif form == "fixed_factory":
                r = E.attempt(B.fixed_width_binning, None, bin_width=x["w"])
            else:
                r = E.attempt(B.integer_binning, None, bin_width=x["w"])
            if isinstance(r, Raised):
                return {"res": {"raised": r}}
            return {"res": {"bins": _l(r.bins), "cls": type(r).__name__, "count": r.bin_count, "width": r.bin_width}}
        elif "l" in x:
            pairs = np.asarray([[l, r_] for l, r_ in zip(x["l"], x["r"])])
            ctor = {"pairs_static": B.StaticBinning, "as_binning_pairs": B.as_binning, "static_binning_fn": lambda b: B.static_binning(None, bins=b)}[form]
            r = E.attempt(ctor, pairs)
        else:
            edges = np.asarray(list(x["e"]))
            ctor = {"edges_static": B.StaticBinning, "edges_numpy": B.NumpyBinning, "as_binning_edges": B.as_binning}[form]
            r = E.attempt(ctor, edges)
        if isinstance(r, Raised):
            return {"res": {"raised": r}}
        return {"res": {"bins": _l(r.bins), "cls": type(r).__name__, "count": r.bin_count}}

    def oracle(self, cx, p, x, obs):
        yield "no_harness_exception", obs.get("raised") is None
        if obs.get("raised") is not None:
            return
        res = obs["res"]
        if p["form"] in ("shape_n3", "ndim3", "scalar"):
            yield "wrong_shape_refused", "raised" in res and res["raised"].name in ("ValueError", "TypeError", "IndexError")
            return
        if "w" in x:
            w = cx.t(x["w"])
            if "raised" in res:
                yield "refused_only_if_width_not_positive", z3.And(w <= 0, z3.BoolVal(res["raised"].name == "ValueError"))
            else:
                yield "accepted_only_if_width_positive", w > 0
                yield "bins_rising", z3.And([cx.t(b[0]) < cx.t(b[1]) for b in res["bins"]] + [cx.t(res["width"]) == w])
            return
        if "l" in x:
            L, R = [cx.t(i) for i in x["l"]], [cx.t(i) for i in x["r"]]
        else:
            e = [cx.t(i) for i in x["e"]]
            L, R = e[:-1], e[1:]
        valid = rising_pairs(L, R)
        if "raised" in res:
            yield "refused_only_if_invalid", z3.And(z3.Not(valid), z3.BoolVal(res["raised"].name == "ValueError"))
        else:
            yield "accepted_only_if_valid", valid
            yield "bins_as_given", z3.And([z3.And(cx.t(b[0]) == L[j], cx.t(b[1]) == R[j]) for j, b in enumerate(res["bins"])] + [z3.BoolVal(len(res["bins"]) == p["M"])])


def _rep(E, b):
    """All representations of a binning (world-agnostic)."""
    out = {"bins": _l(b.bins), "count": b.bin_count, "first": b.first_edge, "last": b.last_edge, "consecutive": E.attempt(b.is_consecutive), "regular": E.attempt(b.is_regular),
           "right": b.includes_right_edge, "adaptive": b.is_adaptive(), "cls": type(b).__name__}
    nb = E.attempt(lambda: b.numpy_bins)
    out["numpy_bins"] = _l(nb) if not isinstance(nb, Raised) else {"raised": nb}
    wm = E.attempt(lambda: b.numpy_bins_with_mask)
    out["with_mask"] = [_l(wm[0]), _l(wm[1])] if not isinstance(wm, Raised) else {"raised": wm}
    c = b.copy()
    out["copy"] = {"eq": bool(c == b), "distinct": c is not b, "bins": _l(c.bins), "cls": type(c).__name__, "right": c.includes_right_edge, "adaptive": c.is_adaptive()}
    st = E.attempt(b.as_static)
    out["as_static"] = {"bins": _l(st.bins), "cls": type(st).__name__, "right": st.includes_right_edge} if not isinstance(st, Raised) else {"raised": st}
    fw = E.attempt(b.as_fixed_width)
    out["as_fixed_width"] = {"bins": _l(fw.bins), "cls": type(fw).__name__} if not isinstance(fw, Raised) else {"raised": fw}
    out["slices"] = {}
    M = len(out["bins"])
    for i, j in itertools.combinations(range(M + 1), 2):
        s = E.attempt(lambda: b[i:j])
        out["slices"][f"{i}:{j}"] = _l(s.bins) if not isinstance(s, Raised) else {"raised": s}
    # a slice is a binning of its own: its consecutiveness / edge representation must be those of ITS bins
    out["slice_props"] = {}
    for key, sl in (("0:%d" % max(M - 1, 1), slice(0, max(M - 1, 1))), ("1:%d" % M, slice(1, M)), ("::2", slice(None, None, 2))):
        s = E.attempt(lambda: b[sl])
        if isinstance(s, Raised) or s.bin_count == 0:
            continue
        nb = E.attempt(lambda: s.numpy_bins)
        out["slice_props"][key] = {"bins": _l(s.bins), "consecutive": E.attempt(s.is_consecutive), "numpy_bins_ok": not isinstance(nb, Raised),
                                   "cls": type(s).__name__}
    out["items"] = []
    for i in range(M):
        it = b[i]
        out["items"].append(_l(it) if hasattr(it, "tolist") else None)
    return out


@register
class C07Representations(Harness):
    prop = "C07"
    group = "representations"
    bounds_doc = "StaticBinning (consecutive / one gap), NumpyBinning, FixedWidthBinning, ExponentialBinning with symbolic parameters and M<=3 bins: bins, numpy_bins, numpy_bins_with_mask, bin_count, first/last edge, is_consecutive, is_regular, copy, ==, slicing, as_static, as_fixed_width agree with one another"

    def instances(self, tier):
        for M in (1, 2, 3):
            for kind in ("static", "numpy", "fixed", "static_open"):
                yield f"rep-{kind}-M{M}", dict(kind=kind, M=M, regular=None)
            if M >= 2:
                for g in range(M - 1):
                    yield f"rep-gapped{g}-M{M}", dict(kind="gapped", M=M, gap=g, regular=None)
            if M >= 2:
                yield f"rep-static-regular-M{M}", dict(kind="static", M=M, regular=True)
                yield f"rep-static-irregular-M{M}", dict(kind="static", M=M, regular=False)
        yield "rep-exponential-M2", dict(kind="exponential", M=2, regular=None)
        # a genuine gap that is small relative to the edges (inside is_consecutive's relative tolerance)
        yield "rep-smallgap0-M2", dict(kind="gapped", M=2, gap=0, regular=None, small=True)

    def declare(self, cx, p):
        M, kind = p["M"], p["kind"]
        x = {}
        if kind in ("static", "numpy", "static_open"):
            x["e"] = declare_edges(cx, "e", M)
            if cx.sym:
                e = [cx.t(t) for t in x["e"]]
                cx.assume(*[z3.And(t >= -1000, t <= 1000) for t in e])
                widths = [e[j + 1] - e[j] for j in range(M)]
                if p["regular"] is True:
                    cx.assume(*[widths[j] == widths[0] for j in range(1, M)])
                elif p["regular"] is False:
                    # clearly irregular: some width differs from the first by much more than is_regular's tolerance
                    cx.assume(z3.Or([zabs(widths[j] - widths[0]) > z3.Q(1, 100) for j in range(1, M)]))
                else:
                    # either exactly regular or clearly irregular (the tolerance band of is_regular is library-defined)
                    cx.assume(z3.Or(z3.And([widths[j] == widths[0] for j in range(1, M)]), z3.Or([zabs(widths[j + 1] - widths[j]) > z3.Q(1, 100) for j in range(M - 1)] or [z3.BoolVal(False)])))
        elif kind == "gapped":
            x["l"], x["r"] = cx.reals("l", M), cx.reals("r", M)
            if cx.sym:
                L, R = [cx.t(i) for i in x["l"]], [cx.t(i) for i in x["r"]]
                if p.get("small"):
                    ar = zabs(R[0])
                    cx.assume(rising_pairs(L, R), ar >= 1, L[1] - R[0] >= ar / 400000, L[1] - R[0] <= ar / 200000)
                    # clearly unequal widths (is_regular has its own tolerance; the instance is not about it)
                    cx.assume((R[0] - L[0]) > (R[1] - L[1]) * z3.Q(5, 4))
                else:
                    cx.assume(rising_pairs(L, R), tolerance_band(L, R))
                cx.define("small_gap", z3.BoolVal(bool(p.get("small"))))
                cx.assume(*[z3.And(t >= -1000, t <= 1000) for t in L + R])
                cx.assume(*[R[j] - L[j] > z3.Q(1, 100) for j in range(M)])
                for j in range(M - 1):
                    cx.assume(L[j + 1] > R[j] if j == p["gap"] else L[j + 1] == R[j])
        elif kind == "fixed":
            x["w"], x["t"], x["s"] = cx.pyfloat("w"), cx.pyint("t", -3, 3), cx.pyfloat("s")
            if cx.sym:
                cx.assume(x["w"] > 0.125, x["w"] <= 100, x["s"] >= 0, x["s"] < x["w"])
        else:
            x["lm"], x["lw"] = cx.pyfloat("lm"), cx.pyfloat("lw")
            if cx.sym:
                cx.assume(x["lw"] > 0.125, x["lw"] <= 2, x["lm"] >= -3, x["lm"] <= 3)
        return x

    def witness_hints(self, cx, p, x):
        if not p.get("small"):
            return []
        return [[cx.t(x["r"][0]) == 512, cx.t(x["l"][1]) == 512 + z3.Q(1, 512), cx.t(x["l"][0]) == 500, cx.t(x["r"][1]) == 520]]

    def _make(self, E, p, x):
        np = E.np
        B = E.mod("physt.binnings")
        kind, M = p["kind"], p["M"]
        if kind == "static":
            return B.StaticBinning(np.asarray([[x["e"][j], x["e"][j + 1]] for j in range(M)]))
        if kind == "static_open":
            return B.StaticBinning(np.asarray([[x["e"][j], x["e"][j + 1]] for j in range(M)]), includes_right_edge=False)
        if kind == "numpy":
            return B.NumpyBinning(np.asarray(list(x["e"])))
        if kind == "gapped":
            return B.StaticBinning(np.asarray([[l, r] for l, r in zip(x["l"], x["r"])]))
        if kind == "fixed":
            return B.FixedWidthBinning(bin_width=x["w"], bin_count=M, bin_times_min=x["t"], bin_shift=x["s"])
        return B.ExponentialBinning(log_min=x["lm"], log_width=x["lw"], bin_count=M)

    def drive(self, E, p, x):
        # == against a copy in every cache state of the left / right operand (nothing read yet, only edges read, only pairs read)
        eq = {}
        for state in ("fresh", "edges_read", "pairs_read"):
            b = self._make(E, p, x)
            if state == "edges_read":
                E.attempt(lambda: b.numpy_bins)
            elif state == "pairs_read":
                b.bins
            c = b.copy()
            eq[state] = [bool(b == c), bool(c == b), bool(b == self._make(E, p, x))]
        return {"rep": _rep(E, self._make(E, p, x)), "eq_states": eq}

    def oracle(self, cx, p, x, obs):
        yield "no_exception", obs.get("raised") is None
        if obs.get("raised") is not None:
            return
        M, kind = p["M"], p["kind"]
        rep = obs["rep"]
        bins = rep["bins"]
        yield "equal_to_its_copy_in_every_cache_state", all(all(v) for v in obs["eq_states"].values())
        yield "bin_count", rep["count"] == M == len(bins)
        if len(bins) != M:
            return
        Lb, Rb = [cx.t(b[0]) for b in bins], [cx.t(b[1]) for b in bins]
        # reference bins from the parameters
        if kind in ("static", "numpy", "static_open"):
            e = [cx.t(t) for t in x["e"]]
            L, R = e[:-1], e[1:]
        elif kind == "gapped":
            L, R = [cx.t(i) for i in x["l"]], [cx.t(i) for i in x["r"]]
        elif kind == "fixed":
            w, t, s = cx.t(x["w"]), cx.t(x["t"]), cx.t(x["s"])
            L, R = [(t + j) * w + s for j in range(M)], [(t + j + 1) * w + s for j in range(M)]
        else:
            L, R = Lb, Rb
            yield "geometric_sequence", z3.And([Rb[j] == Lb[j + 1] for j in range(M - 1)] + [Lb[0] > 0] + [Rb[j] * Lb[0] == Rb[0] * Lb[j] if False else z3.BoolVal(True) for j in range(M)])
        yield "bins", z3.And([z3.And(Lb[j] == L[j], Rb[j] == R[j]) for j in range(M)])
        yield "well_formed", z3.And([Lb[j] < Rb[j] for j in range(M)] + [Rb[j] <= Lb[j + 1] for j in range(M - 1)])
        yield "first_last_edge", z3.And(cx.eq(rep["first"], L[0]), cx.eq(rep["last"], R[-1]))
        cons = consecutive(L, R)
        yield "is_consecutive", (rep["consecutive"] is True) if kind != "gapped" else (rep["consecutive"] is False)
        nb = rep["numpy_bins"]
        if kind == "gapped":
            yield "numpy_bins_refused_for_gaps", isinstance(nb, dict) and nb["raised"].name == "ValueError"
        else:
            ok = isinstance(nb, list) and len(nb) == M + 1
            yield "numpy_bins", z3.And([cx.eq(nb[0], L[0])] + [cx.eq(nb[j + 1], R[j]) for j in range(M)]) if ok else False
        wm = rep["with_mask"]
        if isinstance(wm, dict):
            yield "with_mask_no_exception", False
        else:
            edges, mask = wm
            exp_edges, exp_mask, pos = [L[0]], [], 0
            for j in range(M):
                exp_mask.append(pos)
                exp_edges.append(R[j])
                pos += 1
                if kind == "gapped" and j == p.get("gap") and j < M - 1:
                    exp_edges.append(L[j + 1])
                    pos += 1
            n_exp = len(exp_edges) + (0 if rep["right"] else 1)
            yield "with_mask_shape", len(edges) == n_exp and [int(m) for m in mask] == exp_mask
            if len(edges) == n_exp:
                yield "with_mask_edges", z3.And([cx.eq(edges[i], exp_edges[i]) for i in range(len(exp_edges))])
                if not rep["right"]:
                    yield "open_right_edge_gets_inf_bin", (not cx.finite(edges[-1]))
        # is_regular: all widths equal
        widths = [R[j] - L[j] for j in range(M)]
        all_equal = z3.And([widths[j] == widths[0] for j in range(1, M)]) if M > 1 else z3.BoolVal(True)
        reg = rep["regular"]
        if kind == "exponential":
            yield "exponential_not_regular", reg is False
        elif kind == "gapped":
            yield "is_regular_answers", isinstance(reg, bool)
        else:
            yield "is_regular", z3.BoolVal(reg is True) == all_equal if isinstance(reg, bool) else z3.BoolVal(False)
        c = rep["copy"]
        yield "copy_equal_independent", c["eq"] is True and c["distinct"] is True and c["cls"] == rep["cls"] and c["right"] == rep["right"] and c["adaptive"] == rep["adaptive"]
        yield "copy_bins", z3.And([z3.And(cx.t(b[0]) == L[j], cx.t(b[1]) == R[j]) for j, b in enumerate(c["bins"])])
        st = rep["as_static"]
        yield "as_static", "raised" not in st and st["cls"] == "StaticBinning" and st["right"] == rep["right"]
        if "raised" not in st:
            yield "as_static_bins", z3.And([z3.And(cx.t(b[0]) == L[j], cx.t(b[1]) == R[j]) for j, b in enumerate(st["bins"])])
        fw = rep["as_fixed_width"]
        if kind in ("static", "numpy", "static_open", "fixed"):
            if "raised" in fw:
                yield "as_fixed_width_refused_only_if_irregular", z3.And(z3.Not(all_equal), z3.BoolVal(fw["raised"].name == "ValueError"))
            else:
                yield "as_fixed_width_only_if_regular", all_equal
                yield "as_fixed_width_bins", z3.And([z3.And(cx.t(b[0]) == L[j], cx.t(b[1]) == R[j]) for j, b in enumerate(fw["bins"])] + [z3.BoolVal(len(fw["bins"]) == M and fw["cls"] == "FixedWidthBinning")])
        elif kind == "gapped" and M > 1:
            yield "as_fixed_width_refused_for_gaps", "raised" in fw
        for key, sb in rep["slices"].items():
            i, j = (int(t) for t in key.split(":"))
            ok = isinstance(sb, list) and len(sb) == j - i
            yield f"slice[{key}]", z3.And([z3.And(cx.t(sb[t][0]) == L[i + t], cx.t(sb[t][1]) == R[i + t]) for t in range(j - i)]) if ok else False
        yield "items", z3.And([z3.And(cx.t(it[0]) == L[j], cx.t(it[1]) == R[j]) for j, it in enumerate(rep["items"]) if it is not None] or [z3.BoolVal(True)])
        for key, sp in rep.get("slice_props", {}).items():
            sb = sp["bins"]
            sl_cons = z3.And([cx.t(sb[t][1]) == cx.t(sb[t + 1][0]) for t in range(len(sb) - 1)]) if len(sb) > 1 else z3.BoolVal(True)
            clear_gap = z3.And([z3.Or(cx.t(sb[t][1]) == cx.t(sb[t + 1][0]), cx.t(sb[t + 1][0]) - cx.t(sb[t][1]) > ATOL + RTOL * zabs(cx.t(sb[t][1]))) for t in range(len(sb) - 1)]) if len(sb) > 1 else z3.BoolVal(True)
            if isinstance(sp["consecutive"], bool):
                yield f"slice_is_consecutive[{key}]", z3.Implies(clear_gap, z3.BoolVal(sp["consecutive"]) == sl_cons)
                yield f"slice_numpy_bins_iff_consecutive[{key}]", z3.Implies(clear_gap, z3.BoolVal(sp["numpy_bins_ok"]) == sl_cons)
            else:
                yield f"slice_is_consecutive[{key}]", False


def _info(E, b):
    return {"cls": type(b).__name__, "bins": _l(b.bins), "count": b.bin_count, "right": b.includes_right_edge, "adaptive": b.is_adaptive(),
            "grid": [getattr(b, "_bin_width", None), getattr(b, "_shift", None), getattr(b, "_times_min", None)]}


def _zmin(ts):
    r = ts[0]
    for t in ts[1:]:
        r = z3.If(t < r, t, r)
    return r


def _zmax(ts):
    r = ts[0]
    for t in ts[1:]:
        r = z3.If(t > r, t, r)
    return r


@register
class C07Factories(Harness):
    prop = "C07"
    group = "factories"
    bounds_doc = ("binnings derived from N<=3 symbolic data values: numpy_binning (bin_count 1..3, with/without range), fixed_width_binning (symbolic width, align / bin_shift, range), "
                  "integer_binning, quantile_binning (q lists and bin_count), calculate_1d_bins dispatch (int, edges, pairs, method names, binning object, callable, unknown name)")

    def witness_hints(self, cx, p, x):
        # fixed-width factories: concrete witnesses with dyadic widths / ranges / data (the floor arithmetic then agrees in exact reals and binary64;
        # a witness such as w = 4.8, lo = -14.4 sits on a knife edge of floor(lo / w) and diverges from the real library)
        if p.get("kind") != "fixed":
            return []
        vals = [x[k] for k in ("w", "s", "lo", "hi") if k in x] + list(x.get("v", []))
        return [[z3.ToReal(z3.ToInt(cx.t(v) * 8)) == cx.t(v) * 8 for v in vals]]

    def instances(self, tier):
        ns = (2, 3) if tier != "quick" else (2,)
        for N in ns:
            for k in (1, 2, 3):
                yield f"numpy-N{N}-k{k}", dict(kind="numpy", N=N, k=k, range=False)
            yield f"numpy-N{N}-k2-range", dict(kind="numpy", N=N, k=2, range=True)
            for variant in ("plain", "shift", "range"):
                yield f"fixed-N{N}-{variant}", dict(kind="fixed", N=N, variant=variant)
            yield f"integer-N{N}", dict(kind="integer", N=N)
            yield f"quantile-N{N}-q", dict(kind="quantile", N=N, mode="q")
            yield f"quantile-N{N}-count2", dict(kind="quantile", N=N, mode="count")
        yield "numpy-N1", dict(kind="numpy", N=1, k=2, range=False)
        yield "fixed-N1-plain", dict(kind="fixed", N=1, variant="plain")
        yield "integer-N1", dict(kind="integer", N=1)
        for how in ("int", "edges", "pairs", "name_numpy", "name_fixed_width", "name_integer", "object", "callable", "unknown", "none", "sqrt"):
            yield f"dispatch-{how}", dict(kind="dispatch", N=2, how=how)
        for how in ("list_per_axis", "scalar_for_all", "wrong_len", "range_pair", "dim_mismatch", "kw_list", "kw_scalar", "kw_wrong_len", "range_per_axis", "columns_distinct", "tuple_edges_for_all", "tuple_len_dim"):
            yield f"dispatch-nd-{how}", dict(kind="dispatch_nd", N=2, how=how)

    def declare(self, cx, p):
        N = p["N"]
        x = {"v": cx.reals("v", N)}
        if cx.sym:
            cx.assume(*[z3.And(cx.t(v) >= -50, cx.t(v) <= 50) for v in x["v"]])
        k = p["kind"]
        if k == "numpy" and p.get("range"):
            x["lo"], x["hi"] = cx.pyfloat("lo"), cx.pyfloat("hi")
            if cx.sym:
                cx.assume(x["lo"] < x["hi"], x["lo"] >= -50, x["hi"] <= 50)
        if k == "fixed":
            x["w"] = cx.pyfloat("w")
            if cx.sym:
                cx.assume(x["w"] >= 4, x["w"] <= 64)   # few bins over [-50, 50]
            if p["variant"] == "shift":
                x["s"] = cx.pyfloat("s")
                if cx.sym:
                    cx.assume(x["s"] >= 0, x["s"] < x["w"])
            if p["variant"] == "range":
                x["lo"], x["hi"] = cx.pyfloat("lo"), cx.pyfloat("hi")
                if cx.sym:
                    cx.assume(x["lo"] < x["hi"], x["lo"] >= -50, x["hi"] <= 50)
        if k == "integer" and cx.sym:
            cx.assume(*[z3.And(cx.t(v) >= -3, cx.t(v) <= 3) for v in x["v"]])
        if k == "quantile" and cx.sym:
            # distinct data (ties make quantile edges coincide, which must be refused - checked separately)
            vs = [cx.t(v) for v in x["v"]]
            cx.define("ties", z3.Or([vs[i] == vs[j] for i in range(N) for j in range(i + 1, N)]))
        if k in ("dispatch", "dispatch_nd") and cx.sym:
            vs = [cx.t(v) for v in x["v"]]
            cx.assume(vs[0] != vs[1], *[z3.And(t >= -3, t <= 3) for t in vs])
        return x

    def drive(self, E, p, x):
        np = E.np
        B = E.mod("physt.binnings")
        C = E.mod("physt._construction")
        data = np.asarray(list(x["v"]), dtype=float)
        k = p["kind"]
        if k == "numpy":
            kw = {"range": (x["lo"], x["hi"])} if p.get("range") else {}
            r = E.attempt(B.numpy_binning, data, p["k"], **kw)
        elif k == "fixed":
            kw = {}
            if p["variant"] == "shift":
                kw["bin_shift"] = x["s"]
            if p["variant"] == "range":
                kw["range"] = (x["lo"], x["hi"])
            r = E.attempt(B.fixed_width_binning, data, x["w"], **kw)
        elif k == "integer":
            r = E.attempt(B.integer_binning, data)
        elif k == "quantile":
            if p["mode"] == "q":
                r = E.attempt(B.quantile_binning, data, q=[0.0, 0.5, 1.0])
            else:
                r = E.attempt(B.quantile_binning, data, bin_count=2)
        elif k == "dispatch":
            how = p["how"]
            arg = {"int": 2, "edges": np.asarray([-4.0, 0.0, 4.0]), "pairs": np.asarray([[-4.0, 0.0], [1.0, 4.0]]), "name_numpy": "numpy", "name_fixed_width": "fixed_width",
                   "name_integer": "integer", "object": B.NumpyBinning(np.asarray([-4.0, 0.0, 4.0])), "callable": (lambda arr, **kw: B.StaticBinning(np.asarray([-4.0, 4.0]))),
                   "unknown": "no_such_method", "none": None, "sqrt": "sqrt"}[how]
            r = E.attempt(C.calculate_1d_bins, data, arg)
        else:
            how = p["how"]
            arr2 = np.asarray([[x["v"][0], x["v"][1]], [x["v"][1], x["v"][0]]], dtype=float)
            if how == "list_per_axis":
                r = E.attempt(C.calculate_nd_bins, arr2, [2, np.asarray([-4.0, 0.0, 4.0])])
            elif how == "scalar_for_all":
                r = E.attempt(C.calculate_nd_bins, arr2, 2)
            elif how == "wrong_len":
                r = E.attempt(C.calculate_nd_bins, arr2, [2, 2, 2])
            elif how == "tuple_edges_for_all":
                # a tuple is ONE edge specification applied to every axis (a list is one item per axis)
                r = E.attempt(C.calculate_nd_bins, arr2, (-64.0, 0.0, 64.0))
            elif how == "tuple_len_dim":
                r = E.attempt(C.calculate_nd_bins, arr2, (-64.0, 64.0))
            elif how == "range_pair":
                r = E.attempt(C.calculate_nd_bins, arr2, 2, range=(-4.0, 4.0))
            elif how in ("kw_list", "kw_scalar", "kw_wrong_len", "range_per_axis", "columns_distinct"):
                # distinct columns: column 1 is column 0 shifted by 100, so a column / argument mix-up shows in the covered range
                arr3 = np.asarray([[x["v"][0], x["v"][1] + 100.0], [x["v"][1], x["v"][0] + 100.0]], dtype=float)
                if how == "kw_list":
                    r = E.attempt(C.calculate_nd_bins, arr3, "fixed_width", bin_width=[1.0, 2.0])
                elif how == "kw_scalar":
                    r = E.attempt(C.calculate_nd_bins, arr3, "fixed_width", bin_width=2.0)
                elif how == "kw_wrong_len":
                    r = E.attempt(C.calculate_nd_bins, arr3, "fixed_width", bin_width=[1.0, 2.0, 4.0])
                elif how == "range_per_axis":
                    r = E.attempt(C.calculate_nd_bins, arr3, 2, range=[(-64.0, 64.0), (0.0, 256.0)])
                else:
                    r = E.attempt(C.calculate_nd_bins, arr3, 2)
            else:
                r = E.attempt(C.calculate_nd_bins, arr2, 2, dim=3)
            if isinstance(r, Raised):
                return {"res": {"raised": r}}
            return {"res": [_info(E, b) for b in r]}
        if isinstance(r, Raised):
            return {"res": {"raised": r}}
        return {"res": _info(E, r)}

    def oracle(self, cx, p, x, obs):
        yield "no_harness_exception", obs.get("raised") is None
        if obs.get("raised") is not None:
            return
        res = obs["res"]
        N, k = p["N"], p["kind"]
        v = [cx.t(i) for i in x["v"]]
        mn, mx = _zmin(v), _zmax(v)

        def wellformed(bins):
            L, R = [cx.t(b[0]) for b in bins], [cx.t(b[1]) for b in bins]
            return z3.And([L[j] < R[j] for j in range(len(bins))] + [R[j] <= L[j + 1] for j in range(len(bins) - 1)])

        def covers(bins, lo, hi, closed_right=True):
            return z3.And(cx.t(bins[0][0]) <= lo, (hi <= cx.t(bins[-1][1])) if closed_right else (hi < cx.t(bins[-1][1])))

        if k == "numpy":
            if p.get("range"):
                lo, hi = cx.t(x["lo"]), cx.t(x["hi"])
                yield "no_exception", "raised" not in res
            else:
                lo, hi = mn, mx
                if N < 2:
                    yield "too_few_values_refused", "raised" in res and res["raised"].name == "ValueError"
                    return
                if "raised" in res:
                    yield "refused_only_if_all_equal", z3.And(mn == mx, z3.BoolVal(res["raised"].name == "ValueError"))
                    return
                yield "equal_values_refused", mn != mx
            if "raised" in res:
                return
            K = p["k"]
            yield "class_numpy", res["cls"] == "NumpyBinning" and res["count"] == K and res["right"] is True
            bins = res["bins"]
            yield "well_formed", wellformed(bins)
            yield "numpy_rule", z3.And([z3.And(cx.t(bins[j][0]) == lo + j * (hi - lo) / K, cx.t(bins[j][1]) == (lo + (j + 1) * (hi - lo) / K if j < K - 1 else hi)) for j in range(K)])
            if not p.get("range"):
                yield "covers_data", covers(bins, mn, mx)
            return
        if k in ("fixed", "integer"):
            yield "no_exception", "raised" not in res
            if "raised" in res:
                return
            bins = res["bins"]
            M = len(bins)
            yield "class_fixed", res["cls"] == "FixedWidthBinning" and M >= 1
            if M < 1:
                return
            w = cx.t(x["w"]) if k == "fixed" else z3.RealVal(1)
            s = cx.t(x["s"]) if p.get("variant") == "shift" else (z3.Q(1, 2) if k == "integer" else z3.RealVal(0))
            tm = cx.t(res["grid"][2])
            yield "well_formed", wellformed(bins)
            yield "equal_width_on_grid", z3.And([z3.And(cx.t(bins[j][0]) == (tm + j) * w + s, cx.t(bins[j][1]) == (tm + j + 1) * w + s) for j in range(M)])
            if p.get("variant") == "range":
                lo, hi = cx.t(x["lo"]), cx.t(x["hi"])
                yield "covers_range", covers(bins, lo, hi)
            else:
                # includes_right_edge is False for fixed width: the maximum lies strictly inside
                yield "covers_data", covers(bins, mn, mx, closed_right=False)
                yield "minimal_span", z3.And(cx.t(bins[0][1]) > mn, cx.t(bins[-1][0]) <= mx)
            if k == "integer":
                yield "centred_on_integers", z3.And([z3.ToReal(z3.ToInt((cx.t(b[0]) + cx.t(b[1])) / 2)) == (cx.t(b[0]) + cx.t(b[1])) / 2 for b in bins] + [cx.t(b[1]) - cx.t(b[0]) == 1 for b in bins])
            return
        if k == "quantile":
            ties = z3.Or([v[i] == v[j] for i in range(N) for j in range(i + 1, N)])
            if "raised" in res:
                yield "refused_only_with_ties", z3.And(ties, z3.BoolVal(res["raised"].name == "ValueError"))
                return
            yield "ties_refused", z3.Not(ties)
            bins = res["bins"]
            yield "class_static", res["cls"] == "StaticBinning" and len(bins) == 2 and res["right"] is True
            if len(bins) != 2:
                return
            if N == 2:
                med = (v[0] + v[1]) / 2
            else:
                med = v[0] + v[1] + v[2] - mn - mx
            yield "quantile_edges", z3.And(cx.t(bins[0][0]) == mn, cx.t(bins[0][1]) == med, cx.t(bins[1][0]) == med, cx.t(bins[1][1]) == mx)
            yield "well_formed", wellformed(bins)
            return
        if k == "dispatch":
            how = p["how"]
            if how == "unknown":
                yield "unknown_method_refused", "raised" in res and res["raised"].name == "ValueError"
                return
            yield "no_exception", "raised" not in res
            if "raised" in res:
                return
            exp_cls = {"int": "NumpyBinning", "edges": "StaticBinning", "pairs": "StaticBinning", "name_numpy": "NumpyBinning", "name_fixed_width": "FixedWidthBinning",
                       "name_integer": "FixedWidthBinning", "object": "NumpyBinning", "callable": "StaticBinning", "none": "NumpyBinning", "sqrt": "NumpyBinning"}[how]
            yield "dispatch_class", res["cls"] == exp_cls
            exp_count = {"int": 2, "edges": 2, "pairs": 2, "name_numpy": 10, "object": 2, "callable": 1, "none": 10, "sqrt": 2}.get(how)
            if exp_count is not None:
                yield "dispatch_bin_count", len(res["bins"]) == exp_count
            yield "well_formed", wellformed(res["bins"])
            if how in ("int", "name_numpy", "none", "sqrt", "name_fixed_width", "name_integer"):
                yield "covers_data", covers(res["bins"], mn, mx, closed_right=how not in ("name_fixed_width", "name_integer"))
            return
        how = p["how"]
        if how in ("wrong_len", "dim_mismatch", "kw_wrong_len"):
            yield "refused", isinstance(res, dict) and "raised" in res and res["raised"].name == "ValueError"
            return
        yield "no_exception", isinstance(res, list)
        if not isinstance(res, list):
            return
        yield "one_binning_per_axis", len(res) == 2
        if how == "list_per_axis":
            yield "per_axis_arguments", res[0]["cls"] == "NumpyBinning" and len(res[0]["bins"]) == 2 and res[1]["cls"] == "StaticBinning" and len(res[1]["bins"]) == 2
        elif how == "scalar_for_all":
            yield "scalar_fans_out", all(r["cls"] == "NumpyBinning" and len(r["bins"]) == 2 for r in res)
            yield "covers_columns", z3.And([covers(r["bins"], mn, mx) for r in res])
        elif how in ("tuple_edges_for_all", "tuple_len_dim"):
            exp = [-64, 0, 64] if how == "tuple_edges_for_all" else [-64, 64]
            yield "tuple_is_one_edge_spec_for_every_axis", z3.And([z3.BoolVal(len(r["bins"]) == len(exp) - 1) for r in res]
                                                                  + [z3.And(cx.t(r["bins"][j][0]) == exp[j], cx.t(r["bins"][j][1]) == exp[j + 1]) for r in res for j in range(min(len(r["bins"]), len(exp) - 1))])
        elif how == "range_pair":
            yield "range_applies_to_all", z3.And([z3.And(cx.t(r["bins"][0][0]) == -4, cx.t(r["bins"][-1][1]) == 4) for r in res])
        elif how == "range_per_axis":
            yield "range_per_axis", z3.And(cx.t(res[0]["bins"][0][0]) == -64, cx.t(res[0]["bins"][-1][1]) == 64, cx.t(res[1]["bins"][0][0]) == 0, cx.t(res[1]["bins"][-1][1]) == 256,
                                          z3.BoolVal(len(res[0]["bins"]) == 2 and len(res[1]["bins"]) == 2))
        else:
            lo, hi = [mn, mn + 100], [mx, mx + 100]
            if how in ("kw_list", "kw_scalar"):
                widths = [1, 2] if how == "kw_list" else [2, 2]
                yield "fixed_width_per_axis", z3.And([z3.And([cx.t(b[1]) - cx.t(b[0]) == widths[a] for b in res[a]["bins"]]) for a in range(2)] + [z3.BoolVal(all(r["cls"] == "FixedWidthBinning" for r in res))])
                yield "axis_covers_its_own_column", z3.And([z3.And(cx.t(res[a]["bins"][0][0]) <= lo[a], hi[a] < cx.t(res[a]["bins"][-1][1]),
                                                                   cx.t(res[a]["bins"][0][0]) > lo[a] - widths[a], cx.t(res[a]["bins"][-1][1]) <= hi[a] + widths[a]) for a in range(2)])
            else:
                yield "axis_covers_its_own_column", z3.And([z3.And(cx.t(res[a]["bins"][0][0]) == lo[a], cx.t(res[a]["bins"][-1][1]) == hi[a]) for a in range(2)])


def _no_ties(cx, raw):
    """Exclude raw widths within 1e-6 (relative) of the geometric mean of two adjacent pretty widths and of a power of ten:
    there the choice depends on the float rounding of log/log10, which R-mode cannot decide."""
    seq = sorted((10.0 ** k) * s for k in range(-4, 5) for s in (0.5, 1, 2, 2.5, 5))
    eps = z3.Q(1, 10**6)
    for a, b in zip(seq, seq[1:]):
        gm2 = lift_num(a) * lift_num(b)
        cx.assume(z3.Or(raw * raw < gm2 * (1 - eps), raw * raw > gm2 * (1 + eps)))
    for k in range(-4, 5):
        t = lift_num(10.0 ** k)
        cx.assume(z3.Or(raw < t * (1 - eps), raw >= t))


@register
class C07Pretty(Harness):
    assumptions_doc = ("C07 pretty widths: raw widths within 1e-6 (relative) of a tie between two adjacent candidates, or just below a power of ten, are excluded (the outcome depends on the rounding of log/log10)",)
    prop = "C07"
    group = "pretty"
    stubs = ("log10 / ln as uninterpreted functions with order-preserving axioms (anchors 10^k for k in [-9, 9], ln a + ln b >= 0 <=> a*b >= 1)",)
    bounds_doc = "find_pretty_width / pretty_binning for a symbolic raw width in [0.011, 900] (data range / bin_count): width in {1, 2, 2.5, 5}*10^k and nearest to the raw width in log scale; ideal_bin_count rules sqrt / sturges / rice / default for symbolic n in [1, 1024] (data of that size is modelled by its size only)"

    def instances(self, tier):
        yield "pretty-width", dict(kind="width")
        yield "pretty-binning", dict(kind="binning")
        # explicit range: data inside a part of it / no data at all / min_bin_width, max_bin_width clamps
        yield "pretty-binning-range-data", dict(kind="binning", range="data")
        yield "pretty-binning-range-nodata", dict(kind="binning", range="nodata")
        yield "exponential-data", dict(kind="exponential", range=False)
        yield "exponential-range", dict(kind="exponential", range=True)
        for m in ("sqrt", "sturges", "rice", "default"):
            yield f"bincount-{m}", dict(kind="bincount", method=m)

    def declare(self, cx, p):
        if p["kind"] == "width":
            x = {"raw": cx.pyfloat("raw")}
            if cx.sym:
                cx.assume(x["raw"] >= 0.011, x["raw"] <= 900)
                _no_ties(cx, cx.t(x["raw"]))
            return x
        if p["kind"] == "exponential":
            x = {"lo": cx.real("lo"), "hi": cx.real("hi")}
            if cx.sym:
                cx.assume(x["lo"] >= 0.001, x["hi"] <= 1000, cx.t(x["hi"]) > cx.t(x["lo"]) * 2)
            return x
        if p["kind"] == "binning":
            x = {"lo": cx.real("lo"), "hi": cx.real("hi")}
            if cx.sym:
                cx.assume(x["lo"] >= -20, x["hi"] <= 20, cx.t(x["hi"]) - cx.t(x["lo"]) >= 2, cx.t(x["hi"]) - cx.t(x["lo"]) <= 16)
                _no_ties(cx, (cx.t(x["hi"]) - cx.t(x["lo"])) / 4)
            return x
        return {"n": cx.pyint("n", 1, 1024)}

    def drive(self, E, p, x):
        np = E.np
        BU = E.mod("physt._bin_utils")
        B = E.mod("physt.binnings")
        if p["kind"] == "width":
            r = E.attempt(BU.find_pretty_width, x["raw"])
            return {"res": {"raised": r}} if isinstance(r, Raised) else {"res": r}
        if p["kind"] == "exponential":
            data = np.asarray([x["lo"], x["hi"]], dtype=float)
            r = E.attempt(B.exponential_binning, None, 2, range=(x["lo"], x["hi"])) if p["range"] else E.attempt(B.exponential_binning, data, 2)
            return {"res": {"raised": r}} if isinstance(r, Raised) else {"res": _info(E, r)}
        if p["kind"] == "binning":
            data = np.asarray([x["lo"], x["hi"]], dtype=float)
            if p.get("range") == "data":
                mid = (x["lo"] + x["hi"]) / 2.0
                r = E.attempt(B.pretty_binning, np.asarray([mid, mid], dtype=float), 4, range=(x["lo"], x["hi"]))
            elif p.get("range") == "nodata":
                r = E.attempt(B.pretty_binning, None, 4, range=(x["lo"], x["hi"]))
            else:
                r = E.attempt(B.pretty_binning, data, 4)
            return {"res": {"raised": r}} if isinstance(r, Raised) else {"res": _info(E, r)}

        class _Sized:
            """Stands for a data array of n values: ideal_bin_count only reads .size for these rules."""
            def __init__(self, n):
                self.size = n

        r = E.attempt(B.ideal_bin_count, _Sized(x["n"]), p["method"])
        return {"res": {"raised": r}} if isinstance(r, Raised) else {"res": r}

    def oracle(self, cx, p, x, obs):
        yield "no_harness_exception", obs.get("raised") is None
        if obs.get("raised") is not None:
            return
        res = obs["res"]
        yield "no_exception", not (isinstance(res, dict) and "raised" in res)
        if isinstance(res, dict) and "raised" in res:
            return
        # the pretty widths as the binary64 numbers (10.0**k) * s that the code can produce
        cands = [lift_num((10.0 ** k) * s) for k in range(-3, 4) for s in (1, 2, 2.5, 5)]

        def dist_le(a, b, raw):
            # |ln(a/raw)| <= |ln(b/raw)|  <=>  max(a/raw, raw/a) <= max(b/raw, raw/b)   (with a 1e-9 relative slack for float literals)
            ma = z3.If(a >= raw, a / raw, raw / a)
            mb = z3.If(b >= raw, b / raw, raw / b)
            return ma <= mb * (1 + z3.Q(1, 10**9))

        if p["kind"] == "exponential":
            lo, hi = cx.t(x["lo"]), cx.t(x["hi"])
            bins = res["bins"]
            yield "class_exponential", res["cls"] == "ExponentialBinning" and len(bins) == 2 and res["right"] is True
            if len(bins) != 2:
                return
            e0, e1, e2 = cx.t(bins[0][0]), cx.t(bins[0][1]), cx.t(bins[1][1])
            yield "covers_range", z3.And(e0 == lo, e2 == hi)
            yield "consecutive_rising", z3.And(cx.t(bins[1][0]) == e1, e0 < e1, e1 < e2)
            yield "geometric_sequence", e1 * e1 == e0 * e2
            return
        if p["kind"] == "width":
            raw = cx.t(x["raw"])
            w = cx.t(res)
            yield "pretty_set", z3.Or([w == c for c in cands])
            yield "nearest_in_log_scale", z3.And([dist_le(w, c, raw) for c in cands])
            return
        if p["kind"] == "binning":
            lo, hi = cx.t(x["lo"]), cx.t(x["hi"])
            raw = (hi - lo) / 4
            bins = res["bins"]
            M = len(bins)
            yield "has_bins", M > 0 and res["grid"][2] is not None
            if M == 0 or res["grid"][2] is None:
                return
            w = cx.t(res["grid"][0])
            tm = cx.t(res["grid"][2])
            yield "pretty_set", z3.Or([w == c for c in cands])
            yield "nearest_in_log_scale", z3.And([dist_le(w, c, raw) for c in cands])
            yield "equal_width_aligned", z3.And([z3.And(cx.t(bins[j][0]) == (tm + j) * w, cx.t(bins[j][1]) == (tm + j + 1) * w) for j in range(M)])
            if p.get("range"):
                # an explicit range is covered as a closed interval (its end may be the last edge), with no superfluous bin
                yield "covers_range", z3.And(cx.t(bins[0][0]) <= lo, hi <= cx.t(bins[-1][1]), cx.t(bins[0][1]) > lo, cx.t(bins[-1][0]) < hi) if M else False
            else:
                yield "covers_data", z3.And(cx.t(bins[0][0]) <= lo, hi < cx.t(bins[-1][1]), cx.t(bins[0][1]) > lo, cx.t(bins[-1][0]) <= hi)
            return
        n = cx.t(x["n"])
        r = cx.t(res)
        m = p["method"]
        if m == "sqrt":
            yield "ceil_sqrt", z3.And(r * r >= n, (r - 1) * (r - 1) < n, r >= 1)
        elif m == "rice":
            # r = ceil(2 n^(1/3))  <=>  (r-1)^3 < 8 n <= r^3
            yield "ceil_2_cbrt", z3.And(r * r * r >= 8 * n, (r - 1) * (r - 1) * (r - 1) < 8 * n)
        else:
            # sturges: ceil(log2 n) + 1; default: 7 for n <= 32 else sturges
            def sturges(rr):
                kk = rr - 1
                return z3.Or([z3.And(kk == j, n <= 2 ** j, (n > 2 ** (j - 1)) if j > 0 else n >= 1) for j in range(0, 11)])
            if m == "sturges":
                yield "sturges", sturges(r)
            else:
                yield "default", z3.If(n <= 32, r == 7, sturges(r))
