"""C03 - incremental filling (fill / fill_n) equals batch construction."""
from __future__ import annotations

import itertools

import z3

from symx.api import Harness, Raised, register

from .common import getcell as common_getcell
from .common import consecutive, in_bin, rising_pairs, snap1d, snapnd, tolerance_band, zsum

# histories: how K values are cut into calls; 'f' = fill(one value), 'nS' = fill_n(S values)
HIST = {
    1: [["f"], ["n1"], ["n0", "f"]],
    2: [["f", "f"], ["n2"], ["n1", "f"], ["f", "n0", "n1"]],
    3: [["f", "f", "f"], ["n3"], ["n2", "f"], ["f", "n2"], ["n1", "n1", "n1"]],
}


def _hname(h):
    return "".join(h)


def _vterm(cx, val, R):
    """z3 term of a data value; +inf is represented by a term above the last edge (every comparison with an edge agrees)."""
    if isinstance(val, float) and val == float("inf"):
        return R[-1] + 1
    return cx.t(val)


def _chunks(hist):
    pos, out = 0, []
    for c in hist:
        n = 1 if c == "f" else int(c[1:])
        out.append((c[0], list(range(pos, pos + n))))
        pos += n
    return out


@register
class C03Fill1D(Harness):
    prop = "C03"
    group = "fill1d"
    bounds_doc = "1D: K values entered through every listed call structure (fill / fill_n chunks incl. empty), M bins (edges or gapped pairs), weights none/int/real, keep_missed on/off; compared with reference sums and with h1 batch construction"

    def instances(self, tier):
        ks = (1, 2) if tier == "quick" else (1, 2, 3)
        ms = (1, 2) if tier == "quick" else (1, 2, 3)
        for K, M in itertools.product(ks, ms):
            for hist in HIST[K]:
                for wk, keep, gap in itertools.product(("none", "int", "real"), (True, False), (False, True)):
                    if gap and M < 2:
                        continue
                    if tier == "quick" and gap and wk == "int":
                        continue
                    if K == 3 and (M == 3 or wk == "real" or (gap and not keep)):
                        continue
                    yield (f"1d-K{K}-M{M}-{_hname(hist)}-w{wk}-k{int(keep)}-g{int(gap)}",
                           dict(K=K, M=M, hist=hist, weights=wk, keep_missed=keep, gap=gap, has_n=any(c[0] == "n" for c in hist)))
        # a binning that declares its right edge as not included (as fixed_width / integer / pretty do): in 1D the last bin holds its right edge all the same,
        # for fill, find_bin, fill_n and construction alike
        for hist in HIST[1] + HIST[2][:3]:
            yield (f"1d-K{len(_chunks(hist)[-1][1]) + _chunks(hist)[-1][1][0]}-M2-{_hname(hist)}-wint-k1-g0-openright",
                   dict(K=_chunks(hist)[-1][1][-1] + 1, M=2, hist=hist, weights="int", keep_missed=True, gap=False, has_n=any(c[0] == "n" for c in hist), inc=False))
        # NaN entered through fill(): skipped like in fill_n and at construction (returns None, find_bin agrees, nothing changes)
        for hist, keep in ((["f"], True), (["f"], False), (["f", "f"], True), (["n1", "f"], True), (["f", "n0", "n1"], True)):
            K = _chunks(hist)[-1][1][-1] + 1
            yield (f"1d-K{K}-M2-{_hname(hist)}-wint-k{int(keep)}-g0-nanfill", dict(K=K, M=2, hist=hist, weights="int", keep_missed=keep, gap=False, has_n=any(c[0] == "n" for c in hist), nanfill=True))
        # an infinite value (not NaN: it is overflow, with its weight) as the last of K=2 values, in every call structure
        for hist in HIST[2]:
            for wk in ("none", "real"):
                yield (f"1d-K2-M2-{_hname(hist)}-w{wk}-k1-g0-inf", dict(K=2, M=2, hist=hist, weights=wk, keep_missed=True, gap=False, has_n=any(c[0] == "n" for c in hist), inf=1))

    def declare(self, cx, p):
        K, M = p["K"], p["M"]
        chunks = _chunks(p["hist"])
        in_fill = {i for kind, idx in chunks if kind == "f" for i in idx}
        x = {"v": [cx.real(f"v{i}", nan=(i not in in_fill or bool(p.get("nanfill")))) for i in range(K)]}
        if p["weights"] == "int":
            x["w"] = [cx.pyint(f"w{i}", lo=0) for i in range(K)]
        elif p["weights"] == "real":
            x["w"] = [cx.pyfloat(f"w{i}") for i in range(K)]
            if cx.sym:
                cx.assume(*[w >= 0 for w in x["w"]])
        x["l"], x["r"] = cx.reals("l", M), cx.reals("r", M)
        if p.get("inf") is not None:
            x["v"][p["inf"]] = float("inf")
        if cx.sym:
            L, R = [cx.t(i) for i in x["l"]], [cx.t(i) for i in x["r"]]
            cx.assume(rising_pairs(L, R), tolerance_band(L, R))
            cx.assume(z3.Not(consecutive(L, R)) if p["gap"] else consecutive(L, R))
            v = [_vterm(cx, i, R) for i in x["v"]]
            cx.define("outside", z3.Or([z3.Or(v[i] < L[0], v[i] > R[-1]) for i in range(K)]))
            cx.define("below", z3.Or([v[i] < L[0] for i in range(K)]))
            cx.define("above", z3.Or([v[i] > R[-1] for i in range(K)]))
            cx.define("in_gap", z3.Or([z3.And([v[i] >= L[0], v[i] <= R[-1]] + [z3.Not(in_bin(v[i], L[j], R[j], j == M - 1)) for j in range(M)])
                                       for i in sorted(in_fill)] or [z3.BoolVal(False)]))
        return x

    def drive(self, E, p, x):
        np = E.np
        H1 = E.mod("physt.histogram1d").Histogram1D
        SB = E.mod("physt.binnings").StaticBinning
        pairs = [[l, r] for l, r in zip(x["l"], x["r"])]
        h = H1(SB(pairs, includes_right_edge=p.get("inc", True)), keep_missed=p["keep_missed"])
        obs = {"ret": {}, "fb": {}, "steps": []}
        for kind, idx in _chunks(p["hist"]):
            if kind == "f":
                i = idx[0]
                pre = snap1d(E, h)
                fb = E.attempt(h.find_bin, x["v"][i])
                post = snap1d(E, h)
                obs["fb"][str(i)] = fb
                obs["fb_pure_" + str(i)] = [pre["freq"], post["freq"], pre["err2"], post["err2"], pre["missed"], post["missed"]]
                if "w" in x:
                    r = E.attempt(h.fill, x["v"][i], x["w"][i])
                else:
                    r = E.attempt(h.fill, x["v"][i])
                obs["ret"][str(i)] = r
                if isinstance(r, Raised):
                    obs["raised"] = r
                    return obs
            else:
                vals = np.asarray([x["v"][i] for i in idx], dtype=float)
                if "w" in x:
                    ws = np.asarray([x["w"][i] for i in idx], dtype=(int if p["weights"] == "int" else float))
                    r = E.attempt(h.fill_n, vals, weights=ws)
                else:
                    r = E.attempt(h.fill_n, vals)
                if isinstance(r, Raised):
                    obs["raised"] = r
                    return obs
            obs["steps"].append(snap1d(E, h)["freq"])
        obs["final"] = snap1d(E, h, stats=False)
        # batch construction over the same bins (second real execution path)
        kw = {}
        if "w" in x:
            kw["weights"] = np.asarray(list(x["w"]), dtype=(int if p["weights"] == "int" else float))
        b = E.attempt(E.mod("physt._facade").h1, np.asarray(list(x["v"]), dtype=float), SB(pairs, includes_right_edge=p.get("inc", True)), keep_missed=p["keep_missed"], **kw)
        obs["batch"] = snap1d(E, b) if not isinstance(b, Raised) else {"raised": b}
        return obs

    def oracle(self, cx, p, x, obs):
        K, M = p["K"], p["M"]
        L, R = [cx.t(i) for i in x["l"]], [cx.t(i) for i in x["r"]]
        v = [_vterm(cx, i, R) for i in x["v"]]
        nan = [z3.BoolVal(False) if isinstance(i, float) else cx.isnan(i) for i in x["v"]]
        w = [cx.t(i) for i in x["w"]] if "w" in x else [z3.IntVal(1)] * K
        raised = obs.get("raised")
        yield "no_exception", raised is None
        if raised is not None:
            return
        chunks = _chunks(p["hist"])
        memb = [[in_bin(v[i], L[j], R[j], j == M - 1) for j in range(M)] for i in range(K)]
        # return values of fill / find_bin
        for kind, idx in chunks:
            if kind != "f":
                continue
            i = idx[0]
            ret, fb = obs["ret"][str(i)], obs["fb"][str(i)]
            conds = []
            for j in range(M):
                conds.append((memb[i][j], j))
            for r_, name in ((ret, "fill_returns"), (fb, "find_bin_returns")):
                if r_ is None:
                    # None: a value in a gap - or NaN, which is not entered at all
                    ok = z3.Or(nan[i], z3.And([z3.Not(c) for c, _ in conds] + [v[i] >= L[0], v[i] <= R[-1]]))
                elif isinstance(r_, Raised):
                    ok = z3.BoolVal(False)
                else:
                    rt = cx.t(r_)
                    ok = z3.And([z3.Not(nan[i])] + [z3.Implies(c, rt == j) for c, j in conds] + [z3.Implies(v[i] < L[0], rt == -1), z3.Implies(v[i] > R[-1], rt == M),
                                                                                                   z3.Or([c for c, _ in conds] + [v[i] < L[0], v[i] > R[-1]])])
                yield f"{name}[{i}]", ok
            pre_f, post_f, pre_e, post_e, pre_m, post_m = obs["fb_pure_" + str(i)]
            same = [cx.t(a) == cx.t(b) for a, b in zip(pre_f + pre_e, post_f + post_e)]
            yield f"find_bin_pure[{i}]", z3.And(same) if same else True
        fin = obs["final"]

        def contrib(i, cond, sq=False):
            return z3.If(z3.And(z3.Not(nan[i]), cond), w[i] * w[i] if sq else w[i], 0)

        for j in range(M):
            yield f"content[{j}]", cx.eq(fin["freq"][j], zsum(contrib(i, memb[i][j]) for i in range(K)))
            yield f"err2[{j}]", cx.eq(fin["err2"][j], zsum(contrib(i, memb[i][j], True) for i in range(K)))
        if not p["gap"]:
            if p["keep_missed"]:
                yield "underflow", cx.eq(fin["under"], zsum(contrib(i, v[i] < L[0]) for i in range(K)))
                yield "overflow", cx.eq(fin["over"], zsum(contrib(i, v[i] > R[-1]) for i in range(K)))
            else:
                yield "missed_untouched", z3.And([cx.eq(m, 0) for m in fin["missed"]])
        yield "dtype_consistent", fin["dtype"] == fin["fdtype"] == fin["edtype"]
        # incremental == batch (both real executions), where batch construction exists
        b = obs["batch"]
        if "raised" not in b:
            for j in range(M):
                yield f"batch_content[{j}]", cx.eq(fin["freq"][j], cx.t(b["freq"][j])) if cx.finite(b["freq"][j]) else False
                yield f"batch_err2[{j}]", cx.eq(fin["err2"][j], cx.t(b["err2"][j])) if cx.finite(b["err2"][j]) else False
            if not p["gap"] and p["keep_missed"]:
                yield "batch_underflow", cx.eq(fin["under"], cx.t(b["under"])) if cx.finite(b["under"]) else False
                yield "batch_overflow", cx.eq(fin["over"], cx.t(b["over"])) if cx.finite(b["over"]) else False


ND_HIST = {1: [["f"], ["n1"]], 2: [["f", "f"], ["n2"], ["f", "n1"], ["n0", "n1", "f"]], 3: [["f", "n2"], ["n3"], ["f", "f", "f"]]}


@register
class C03FillND(Harness):
    prop = "C03"
    group = "fillnd"
    bounds_doc = "ND: K rows entered by fill / fill_n call structures on D-dim histograms (per-axis StaticBinning, right-edge inclusion per axis), keep_missed on/off, weights none/int/real; compared with reference sums and with h() batch construction"

    def instances(self, tier):
        cfg = [(1, (2, 1)), (2, (1, 2)), (2, (2, 1))] if tier == "quick" else [(1, (2, 2)), (2, (2, 1)), (2, (1, 2)), (2, (2, 2)), (3, (2, 1)), (2, (1, 2, 1)), (2, (2, 1, 2))]
        for (K, shape), inc in itertools.product(cfg, ("TF", "FT") if tier == "quick" else ("TF", "FT", "TT", "FF")):
            if tier != "quick" and (K == 3 or len(shape) == 3) and inc in ("TT", "FF"):
                continue
            for hist in ND_HIST[K]:
                for wk, keep in itertools.product(("none", "int", "real"), (True, False)):
                    if tier == "quick" and wk == "real" and not keep:
                        continue
                    yield (f"nd-K{K}-S{'x'.join(map(str, shape))}-i{inc}-{_hname(hist)}-w{wk}-k{int(keep)}",
                           dict(K=K, shape=list(shape), inc=[(inc[k % 2] == "T") for k in range(len(shape))], hist=hist, weights=wk, keep_missed=keep))
        # per-axis arrays (columns=True), also for square batches; weights of either sign on rows outside every cell (negative missed weight)
        for hist in (["n2"], ["f", "n1"]):
            yield (f"nd-K2-S2x1-iTF-{_hname(hist)}-wint-k1-columns", dict(K=2, shape=[2, 1], inc=[True, False], hist=hist, weights="int", keep_missed=True, columns=True))
        yield ("nd-K3-S1x2-iTF-n3-wnone-k1-columns", dict(K=3, shape=[1, 2], inc=[True, False], hist=["n3"], weights="none", keep_missed=True, columns=True))
        for hist in (["n2"], ["f", "n1"], ["f", "f"]):
            yield (f"nd-K2-S2x1-iTF-{_hname(hist)}-wsigned-k1", dict(K=2, shape=[2, 1], inc=[True, False], hist=hist, weights="sreal", keep_missed=True))
        # NaN coordinates entered through fill(): the row is skipped like in fill_n and at construction
        for hist, keep in ((["f"], True), (["f"], False), (["f", "n1"], True)):
            K = _chunks(hist)[-1][1][-1] + 1
            yield (f"nd-K{K}-S2x1-iTF-{_hname(hist)}-wint-k{int(keep)}-nanfill", dict(K=K, shape=[2, 1], inc=[True, False], hist=hist, weights="int", keep_missed=keep, nanfill=True))
        # an axis of three bins separated by two gaps (every junction gapped)
        for hist in ND_HIST[1]:
            for inc in ("TF", "FT"):
                yield (f"nd-K1-S3x1-i{inc}-{_hname(hist)}-wint-k1-gapped0", dict(K=1, shape=[3, 1], inc=[c == "T" for c in inc], hist=hist, weights="int", keep_missed=True, gapped=0))

    def declare(self, cx, p):
        K, shape = p["K"], p["shape"]
        D = len(shape)
        chunks = _chunks(p["hist"])
        in_fill = {i for kind, idx in chunks if kind == "f" for i in idx}
        x = {"x": [[cx.real(f"x{i}_{k}", nan=(i not in in_fill or bool(p.get("nanfill")))) for k in range(D)] for i in range(K)]}
        if p["weights"] == "int":
            x["w"] = [cx.pyint(f"w{i}", lo=0) for i in range(K)]
        elif p["weights"] in ("real", "sreal"):
            x["w"] = [cx.pyfloat(f"w{i}") for i in range(K)]
            if cx.sym and p["weights"] == "real":
                cx.assume(*[w >= 0 for w in x["w"]])
        x["e"] = [[cx.real(f"e{k}_{j}") for j in range(shape[k] + 1)] for k in range(D)]
        if p.get("gapped") is not None:
            x["gap"] = [cx.real(f"gap{j}") for j in range(shape[p["gapped"]] - 1)]
            if cx.sym:
                cx.assume(*[g > 0 for g in x["gap"]])
        if cx.sym:
            for k in range(D):
                e = [cx.t(i) for i in x["e"][k]]
                cx.assume(*[e[j] < e[j + 1] for j in range(shape[k])])
            out, on_last = [], []
            for i in range(K):
                for k in range(D):
                    vv, e = cx.t(x["x"][i][k]), [cx.t(t) for t in x["e"][k]]
                    out.append(z3.Or(vv < e[0], vv > e[-1]))
                    if not p["inc"][k]:
                        on_last.append(vv == e[-1])
            if p["weights"] == "sreal":
                # negative weights only on rows outside the bins' bounding box (a negative cell is a different subject: C19)
                for i in range(K):
                    box = z3.And([z3.And(cx.t(x["x"][i][k]) >= cx.t(x["e"][k][0]), cx.t(x["x"][i][k]) <= cx.t(x["e"][k][-1])) for k in range(D)])
                    cx.assume(z3.Implies(box, cx.t(x["w"][i]) >= 0))
            cx.define("outside", z3.Or(out))
            cx.define("on_open_last_edge", z3.Or(on_last) if on_last else z3.BoolVal(False))
        return x

    @staticmethod
    def _pairs(p, x, k, conv=lambda v: v):
        """(left, right) of every bin of axis k; on the gapped axis bin j is shifted right by the gaps in front of it."""
        e = [conv(t) for t in x["e"][k]]
        out, shift = [], 0
        for j in range(p["shape"][k]):
            if p.get("gapped") == k and j > 0:
                shift = shift + conv(x["gap"][j - 1])
            out.append((e[j] + shift, e[j + 1] + shift))
        return out

    def _mk(self, E, p, x):
        SB = E.mod("physt.binnings").StaticBinning
        D = len(p["shape"])
        return [SB([[l, r] for l, r in self._pairs(p, x, k)], includes_right_edge=p["inc"][k]) for k in range(D)]

    def drive(self, E, p, x):
        np = E.np
        nd = E.mod("physt.histogram_nd")
        D = len(p["shape"])
        cls = nd.Histogram2D if D == 2 else nd.HistogramND
        h = cls(self._mk(E, p, x), keep_missed=p["keep_missed"])
        obs = {"ret": {}, "fb": {}}
        for kind, idx in _chunks(p["hist"]):
            if kind == "f":
                i = idx[0]
                pre = snapnd(E, h)
                fb = E.attempt(h.find_bin, list(x["x"][i]))
                post = snapnd(E, h)
                obs["fb"][str(i)] = fb
                obs["fb_pure_" + str(i)] = [pre["freq"], post["freq"], pre["err2"], post["err2"], pre["missed"], post["missed"]]
                r = E.attempt(h.fill, list(x["x"][i]), x["w"][i]) if "w" in x else E.attempt(h.fill, list(x["x"][i]))
                obs["ret"][str(i)] = r
                if isinstance(r, Raised):
                    obs["raised"] = r
                    return obs
            else:
                vals = np.asarray([x["x"][i] for i in idx], dtype=float).reshape((len(idx), D))
                ckw = {}
                if p.get("columns"):
                    vals, ckw = vals.T, {"columns": True}
                if "w" in x:
                    ws = np.asarray([x["w"][i] for i in idx], dtype=(int if p["weights"] == "int" else float))
                    r = E.attempt(h.fill_n, vals, weights=ws, **ckw)
                else:
                    r = E.attempt(h.fill_n, vals, **ckw)
                if isinstance(r, Raised):
                    obs["raised"] = r
                    return obs
        obs["final"] = snapnd(E, h)
        kw = {}
        if "w" in x:
            kw["weights"] = np.asarray(list(x["w"]), dtype=(int if p["weights"] == "int" else float))
        data = np.asarray(x["x"], dtype=float).reshape((p["K"], D))
        b = E.attempt(E.mod("physt._facade").h, data, self._mk(E, p, x), **kw)
        obs["batch"] = snapnd(E, b) if not isinstance(b, Raised) else {"raised": b}
        return obs

    def oracle(self, cx, p, x, obs):
        K, shape = p["K"], p["shape"]
        D = len(shape)
        raised = obs.get("raised")
        yield "no_exception", raised is None
        if raised is not None:
            return
        v = [[cx.t(c) for c in row] for row in x["x"]]
        nanrow = [z3.Or([cx.isnan(c) for c in row]) for row in x["x"]]
        w = [cx.t(i) for i in x["w"]] if "w" in x else [z3.IntVal(1)] * K
        e = [[cx.t(i) for i in x["e"][k]] for k in range(D)]
        LR = [self._pairs(p, x, k, cx.t) for k in range(D)]

        def memb(i, k, j):
            l, r = LR[k][j]
            return in_bin(v[i][k], l, r, j == shape[k] - 1 and p["inc"][k])

        getcell = common_getcell

        cells_idx = list(itertools.product(*[range(s) for s in shape]))
        incell = [{idx: z3.And([z3.Not(nanrow[i])] + [memb(i, k, idx[k]) for k in range(D)]) for idx in cells_idx} for i in range(K)]
        for kind, ids in _chunks(p["hist"]):
            if kind != "f":
                continue
            i = ids[0]
            for r_, name in ((obs["ret"][str(i)], "fill_returns"), (obs["fb"][str(i)], "find_bin_returns")):
                if isinstance(r_, Raised):
                    ok = z3.BoolVal(False)
                elif r_ is None:
                    ok = z3.Not(z3.Or([incell[i][idx] for idx in cells_idx]))
                else:
                    rt = [cx.t(t) for t in r_]
                    ok = z3.And([z3.Implies(incell[i][idx], z3.And([rt[k] == idx[k] for k in range(D)])) for idx in cells_idx]
                                + [z3.Or([incell[i][idx] for idx in cells_idx])])
                yield f"{name}[{i}]", ok
            pre_f, post_f, pre_e, post_e, pre_m, post_m = obs["fb_pure_" + str(i)]
            same = [cx.t(getcell(pre_f, idx)) == cx.t(getcell(post_f, idx)) for idx in cells_idx] + [cx.t(pre_m) == cx.t(post_m)]
            yield f"find_bin_pure[{i}]", z3.And(same)
        fin = obs["final"]
        cells = []
        for idx in cells_idx:
            ref = zsum(z3.If(incell[i][idx], w[i], 0) for i in range(K))
            ref2 = zsum(z3.If(incell[i][idx], w[i] * w[i], 0) for i in range(K))
            cells.append(ref)
            tag = ",".join(map(str, idx))
            yield f"cell[{tag}]", cx.eq(getcell(fin["freq"], idx), ref)
            yield f"err2[{tag}]", cx.eq(getcell(fin["err2"], idx), ref2)
        total_w = zsum(z3.If(z3.Not(nanrow[i]), w[i], 0) for i in range(K))
        if p["keep_missed"]:
            yield "missed", cx.eq(fin["missed"], total_w - zsum(cells))
        else:
            yield "missed_untouched", cx.eq(fin["missed"], 0)
        yield "dtype_consistent", fin["dtype"] == fin["fdtype"] == fin["edtype"]
        b = obs["batch"]
        if "raised" not in b:
            for idx in cells_idx:
                tag = ",".join(map(str, idx))
                bc, be = getcell(b["freq"], idx), getcell(b["err2"], idx)
                yield f"batch_cell[{tag}]", cx.eq(getcell(fin["freq"], idx), cx.t(bc))
                yield f"batch_err2[{tag}]", cx.eq(getcell(fin["err2"], idx), cx.t(be))
            if p["keep_missed"]:
                yield "batch_missed", cx.eq(fin["missed"], cx.t(b["missed"]))


@register
class C03Transformed(Harness):
    prop = "C03"
    group = "transformed"
    bounds_doc = "coordinate-transformed histograms (polar 2x2, cylindrical 1x2x2, spherical 2x1x2 bins, concrete edges) and one symbolic Cartesian point with a symbolic integer weight: fill, fill_n, << and the facade construction leave identical contents / missed, and find_bin names the cell fill incremented (mutual agreement only - the coordinate formulas themselves are C15's)"

    EDGES = {"polar": [[0.0, 1.0, 4.0], [0.0, 3.0, 6.5]], "cylindrical": [[0.0, 4.0], [0.0, 3.0, 6.5], [-2.0, 0.0, 2.0]], "spherical": [[0.0, 1.0, 4.0], [0.0, 3.5], [0.0, 3.0, 6.5]]}
    CLS = {"polar": "PolarHistogram", "cylindrical": "CylindricalHistogram", "spherical": "SphericalHistogram"}

    def instances(self, tier):
        for name in self.EDGES:
            yield f"tr-{name}", dict(cls=name)
            # a NaN coordinate entered with dropna=False is booked as missed, exactly as a single fill does
            yield f"tr-{name}-nan-nodrop", dict(cls=name, nan=True)

    def declare(self, cx, p):
        d = 2 if p["cls"] == "polar" else 3
        x = {"p": [cx.real(f"p{'xyz'[k]}") for k in range(d)], "w": cx.pyint("w", 1, 3)}
        if cx.sym:
            cx.assume(*[z3.And(cx.t(c) >= -5, cx.t(c) <= 5) for c in x["p"]])
        return x

    def witness_hints(self, cx, p, x):
        t = [cx.t(c) for c in x["p"]]
        nz = [z3.And([t[j] == 0 for j in range(len(t)) if j != i] + [z3.ToReal(z3.ToInt(t[i] * 4)) == t[i] * 4]) for i in range(len(t))]
        return [("uf_exact", [z3.Or(nz)])]

    def drive(self, E, p, x):
        np = E.np
        sp = E.mod("physt.special_histograms")
        cls = getattr(sp, self.CLS[p["cls"]])
        bins = [np.asarray(e) for e in self.EDGES[p["cls"]]]
        pt = list(x["p"])

        def snap(h):
            return {"freq": h.frequencies.tolist(), "err2": h.errors2.tolist(), "missed": h.missed}

        if p.get("nan"):
            pt = [float("nan")] + pt[1:]
            a, b = cls(bins), cls(bins)
            r1 = E.attempt(a.fill, np.asarray(pt, dtype=float), x["w"])
            r2 = E.attempt(b.fill_n, np.asarray([pt], dtype=float), weights=np.asarray([x["w"]]), dropna=False)
            bad = next((r for r in (r1, r2) if isinstance(r, Raised)), None)
            return {"raised_any": bad} if bad is not None else {"raised_any": None, "nan_case": True, "fill": snap(a), "fill_n": snap(b)}
        a, b, c = cls(bins), cls(bins), cls(bins)
        fb = E.attempt(a.find_bin, np.asarray(pt, dtype=float))
        r1 = E.attempt(a.fill, np.asarray(pt, dtype=float), x["w"])
        r2 = E.attempt(b.fill_n, np.asarray([pt], dtype=float), weights=np.asarray([x["w"]]))
        r3 = E.attempt(lambda: c << np.asarray(pt, dtype=float))
        obs = {"raised_any": next((r for r in (fb, r1, r2, r3) if isinstance(r, Raised)), None)}
        if obs["raised_any"] is not None:
            return obs
        obs.update(fill=snap(a), fill_n=snap(b), lshift=snap(c), find_bin=fb, fill_ret=r1)
        return obs

    def oracle(self, cx, p, x, obs):
        yield "no_exception", obs.get("raised") is None and obs.get("raised_any") is None
        if obs.get("raised") is not None or obs.get("raised_any") is not None:
            return
        w = cx.t(x["w"])
        flat = lambda a: [c for r in a for c in (flat(r) if isinstance(r, list) else [r])]  # noqa: E731
        if obs.get("nan_case"):
            A, B = obs["fill"], obs["fill_n"]
            # fill() has no dropna option: a NaN point is skipped (as by fill_n's default and at construction); fill_n(dropna=False) was asked to keep the
            # row, which lies in no cell
            yield "nan_fill_enters_nothing", z3.And([cx.t(u) == 0 for u in flat(A["freq"]) + flat(A["err2"]) + [A["missed"]]])
            yield "nan_point_is_missed", z3.And([cx.t(u) == 0 for u in flat(B["freq"]) + flat(B["err2"])] + [cx.t(B["missed"]) == w])
            return
        A, B, C = obs["fill"], obs["fill_n"], obs["lshift"]
        yield "fill_and_fill_n_agree", z3.And([cx.t(u) == cx.t(v) for u, v in zip(flat(A["freq"]) + flat(A["err2"]) + [A["missed"]], flat(B["freq"]) + flat(B["err2"]) + [B["missed"]])])
        yield "lshift_is_unit_fill", z3.And([cx.t(u) * w == cx.t(v) for u, v in zip(flat(C["freq"]) + [C["missed"]], flat(A["freq"]) + [A["missed"]])])
        yield "counted_once", zsum([cx.t(u) for u in flat(A["freq"])] + [cx.t(A["missed"])]) == w
        fb, ret = obs["find_bin"], obs["fill_ret"]
        fbi = None if fb is None else [cx.concrete_int(i) for i in fb]
        reti = None if ret is None else [cx.concrete_int(i) for i in ret]
        yield "find_bin_is_fill_index", fbi == reti
        if fbi is not None:
            cell = A["freq"]
            ok = True
            for i in fbi:
                if not isinstance(cell, list) or not 0 <= i < len(cell):
                    ok = False
                    break
                cell = cell[i]
            yield "indexed_cell_incremented", (cx.t(cell) == w) if ok else False
        else:
            yield "missed_incremented", cx.t(A["missed"]) == w



@register
class C03Dtypes(Harness):
    prop = "C03"
    group = "dtypes"
    bounds_doc = "fill / fill_n on histograms whose element type differs from the weight's: float32 histogram + default (int) weight, int64 histogram + float32 weights, int16 histogram + int64 weights (1D, 2 bins; symbolic value and contents that are multiples of 1/4): accepted, contents = old + weight exactly, identical for fill and fill_n"

    CASES = {"f32_int": ("float32", None), "i64_f32": ("int64", "float32"), "i16_i64": ("int16", "int64"), "f16_f64": ("float16", "float64")}

    def instances(self, tier):
        for c in self.CASES:
            yield f"dt-{c}", dict(case=c)

    def declare(self, cx, p):
        x = {"k": cx.ints("k", 2, 0, 40), "v": cx.pyfloat("v"), "n": cx.int("n", 1, 8)}
        if cx.sym:
            cx.assume(x["v"] >= 0, x["v"] <= 2)
        return x

    def drive(self, E, p, x):
        np = E.np
        H1 = E.mod("physt.histogram1d").Histogram1D
        hd, wd = self.CASES[p["case"]]
        vals = [x["k"][0] / 4.0, x["k"][1] / 4.0] if hd[0] == "f" else list(x["k"])
        mk = lambda: H1(np.asarray([0.0, 1.0, 2.0]), np.asarray(vals, dtype=hd))  # noqa: E731
        a, b = mk(), mk()
        if wd is None:
            r1, r2 = E.attempt(a.fill, x["v"]), E.attempt(b.fill_n, np.asarray([x["v"]]))
        else:
            wv = x["n"] / 4.0 if wd[0] == "f" else x["n"]
            w_scalar = np.asarray([wv], dtype=wd)[0]
            r1, r2 = E.attempt(a.fill, x["v"], w_scalar), E.attempt(b.fill_n, np.asarray([x["v"]]), weights=np.asarray([wv], dtype=wd))
        bad = next((r for r in (r1, r2) if isinstance(r, Raised)), None)
        if bad is not None:
            return {"op_raised": bad}
        return {"fill": snap1d(E, a), "fill_n": snap1d(E, b)}

    def oracle(self, cx, p, x, obs):
        yield "no_exception", obs.get("raised") is None and obs.get("op_raised") is None
        if obs.get("raised") is not None or obs.get("op_raised") is not None:
            return
        hd, wd = self.CASES[p["case"]]
        k = [z3.ToReal(cx.t(i)) / (4 if hd[0] == "f" else 1) for i in x["k"]]
        w = z3.RealVal(1) if wd is None else z3.ToReal(cx.t(x["n"])) / (4 if wd[0] == "f" else 1)
        v = cx.t(x["v"])
        ref = [k[0] + z3.If(v < 1, w, 0), k[1] + z3.If(v >= 1, w, 0)]
        for key in ("fill", "fill_n"):
            s = obs[key]
            yield f"{key}_contents_exact", z3.And([cx.eq(s["freq"][j], ref[j]) for j in range(2)])
            yield f"{key}_dtype_consistent", s["dtype"] == s["fdtype"] == s["edtype"]
        yield "same_dtype_either_way", obs["fill"]["dtype"] == obs["fill_n"]["dtype"] or (wd is None)
