"""C12 - derived histograms are independent of their sources."""
from __future__ import annotations

import itertools

import z3

from symx.api import Harness, Raised, register

from .common import _edges, declare_cells, declare_edges, getcell, nested, product_indices, zsum

DERIV_1D = ["copy", "add", "mul", "div", "normalize", "merge", "merge1", "slice", "mask", "idxarray", "json", "sum1", "sub"]
DERIV_2D = ["copy", "add", "mul", "T", "partial", "accumulate", "projection", "projection_all", "select_int", "select_slice", "merge", "json"]
MUTS = ["fill", "fill_n", "iadd", "imul", "idiv", "dtype", "meta", "merge_inplace"]


def full(E, h):
    """Everything a histogram reports (world-agnostic)."""
    one = h.ndim == 1
    bins = [h.bins.tolist()] if one else [b.tolist() for b in h.bins]
    d = {"geom": "nd", "edges": [_edges(E, b) for b in h._binnings], "right_flags": [bool(b.includes_right_edge) for b in h._binnings], "freq": h.frequencies.tolist(), "err2": h.errors2.tolist(), "missed": h._missed.tolist(), "dtype": str(h.dtype), "fdtype": str(h.frequencies.dtype), "edtype": str(h.errors2.dtype),
         "bins": bins, "name": h.name, "title": h.title, "axis_names": list(h.axis_names), "meta_keys": sorted(h.meta_data.keys()), "custom": h.meta_data.get("custom"),
         "adaptive": h.is_adaptive(), "cls": type(h).__name__, "shape": [int(s) if isinstance(s, int) else s for s in h.shape],
         "fshape": list(h.frequencies.shape), "eshape": list(h.errors2.shape), "keep_missed": h.keep_missed}
    if one:
        s = h.statistics
        d["stats"] = [s.sum, s.sum2, s.weight, s.min, s.max]
    return d


def flat(a):
    if isinstance(a, list):
        out = []
        for i in a:
            out.extend(flat(i))
        return out
    return [a]


def same_snapshot(cx, a, b):
    """z3 formula: two snapshots are identical (numbers term-equal, NaN == NaN, structure equal)."""
    conj = []
    for key in ("freq", "err2", "missed", "bins", "stats"):
        if key not in a and key not in b:
            continue
        fa, fb = flat(a.get(key)), flat(b.get(key))
        if len(fa) != len(fb):
            return z3.BoolVal(False)
        for u, v in zip(fa, fb):
            fu, fv = cx.finite(u), cx.finite(v)
            if fu and fv:
                nu, nv = cx.isnan(u), cx.isnan(v)
                conj.append(z3.Or(z3.And(nu, nv), z3.And(z3.Not(nu), z3.Not(nv), cx.t(u) == cx.t(v))))
            elif fu != fv:
                # one side a concrete nan/inf, the other a (possibly NaN-flagged) number
                w = u if fu else v
                o = v if fu else u
                if isinstance(o, float) and o != o or (hasattr(o, "v") and isinstance(o.v, float) and o.v != o.v):
                    conj.append(cx.isnan(w))
                else:
                    return z3.BoolVal(False)
            else:
                conj.append(z3.BoolVal(repr(getattr(u, "v", u)) == repr(getattr(v, "v", v))))
    for key in ("dtype", "fdtype", "edtype", "name", "title", "axis_names", "meta_keys", "custom", "adaptive", "cls", "fshape", "eshape", "keep_missed", "right_flags"):
        if a.get(key) != b.get(key):
            return z3.BoolVal(False)
    return z3.And(conj) if conj else z3.BoolVal(True)


def wellformed(cx, s):
    n_axes = len(s["bins"])
    ok = s["fshape"] == s["eshape"] and len(s["fshape"]) == n_axes and all(len(s["bins"][k]) == s["fshape"][k] for k in range(n_axes)) and s["dtype"] == s["fdtype"]
    return z3.BoolVal(bool(ok))


class _Base(Harness):
    prop = "C12"

    def _derive(self, E, p, h, g, x):
        np = E.np
        d = p["deriv"]
        if d == "copy":
            return h.copy()
        if d == "add":
            return h + g
        if d == "sub":
            return h - g
        if d == "mul":
            return h * 2
        if d == "div":
            return h / 2
        if d == "normalize":
            return h.normalize()
        if d == "merge":
            return h.merge_bins(2)
        if d == "merge1":
            return h.merge_bins(1)
        if d == "slice":
            return h[0:2]
        if d == "mask":
            return h[np.asarray([True, False, True])]
        if d == "idxarray":
            return h[np.asarray([0, 2])]
        if d == "json":
            io = E.mod("physt.io")
            return io.parse_json(h.to_json())
        if d == "sum1":
            return sum([h])
        if d == "T":
            return h.T
        if d == "partial":
            return h.partial_normalize(0)
        if d == "accumulate":
            return h.accumulate(0)
        if d == "projection":
            return h.projection(0)
        if d == "projection_all":      # every axis kept: nothing is summed, the result is still an object of its own
            return h.projection(0, 1)
        if d == "select_int":
            return h[0]
        if d == "select_slice":
            return h[:, 0:1]
        raise ValueError(d)

    def _mutate(self, E, p, t, x):
        np = E.np
        m = p["mut"]
        if m == "fill":
            v = x["v"] if t.ndim == 1 else [x["v"]] * t.ndim
            return t.fill(v, x["w"])
        if m == "fill_n":
            v = [x["v"]] if t.ndim == 1 else [[x["v"]] * t.ndim]
            return t.fill_n(np.asarray(v, dtype=float))
        if m == "iadd":
            o = t.copy()
            t += o
            return None
        if m == "iadd_missed":
            # += a fresh histogram over the same bins that carries under/overflow (merged into the target's missed counters in place)
            cls = type(t)
            if t.ndim == 1:
                k = cls(t.bins, t.frequencies.copy(), underflow=x["w"], overflow=x["c"])
            else:
                k = cls(list(t.bins), t.frequencies.copy(), missed=x["w"])
            t += k
            return None
        if m == "imul":
            t *= x["c"]
            return None
        if m == "idiv":
            t /= x["c"]
            return None
        if m == "dtype":
            t.dtype = "float64" if str(t.dtype) != "float64" else "float128"
            return None
        if m == "meta":
            t.name = "changed"
            t.title = "changed title"
            t.axis_names = tuple("z%d" % i for i in range(t.ndim))
            t.meta_data["custom"] = "changed"
            return None
        if m == "merge_inplace":
            return t.merge_bins(2, inplace=True)
        if m == "adapt_fill":
            # adaptivity switched on afterwards, then a fill that makes the bins grow
            t.set_adaptive(True)
            return t.fill(x["v"], x["w"])
        raise ValueError(m)

    def _common_declare(self, cx, p, x):
        x["v"] = cx.pyfloat("v")
        x["w"] = cx.pyint("w", 1, 3)
        x["c"] = cx.pyint("c", 2, 3)

    def drive(self, E, p, x):
        h, g = self._make(E, p, x)
        g_initial = full(E, g)
        h_initial = full(E, h)
        der = E.attempt(self._derive, E, p, h, g, x)
        if isinstance(der, Raised) or isinstance(der, tuple):
            return {"skipped": repr(der)}
        if der is h:
            # a derivation handed back its source: the independence obligations below cannot hold
            return {"identical_object": True, "derived_is_source": True}
        obs = {"identical_object": der is h}
        target, other = (der, h) if p["side"] == "derived" else (h, der)
        obs["derived_initial"] = full(E, der)
        obs["source_before_derivation"], obs["source_after_derivation"] = h_initial, full(E, h)
        obs["other_before"] = full(E, other)
        obs["operand_before"] = g_initial
        obs["operand_after_derivation"] = full(E, g)
        r = E.attempt(self._mutate, E, p, target, x)
        obs["mutation"] = {"raised": r} if isinstance(r, Raised) else "ok"
        obs["other_after"] = full(E, other)
        obs["target_after"] = full(E, target)
        obs["operand_after"] = full(E, g)
        return obs

    def oracle(self, cx, p, x, obs):
        yield "no_exception", obs.get("raised") is None
        if obs.get("raised") is not None or "skipped" in obs:
            return
        yield "derived_is_new_object", obs["identical_object"] is False
        if obs["identical_object"]:
            return
        yield "source_unchanged_by_derivation", same_snapshot(cx, obs["source_before_derivation"], obs["source_after_derivation"])
        yield "other_unchanged", same_snapshot(cx, obs["other_before"], obs["other_after"])
        if p["deriv"] in ("add", "sub"):
            yield "second_operand_unchanged_by_derivation", same_snapshot(cx, obs["operand_before"], obs["operand_after_derivation"])
            yield "second_operand_unchanged_by_mutation", z3.And(same_snapshot(cx, obs["operand_before"], obs["operand_after"]), wellformed(cx, obs["operand_after"]))
        yield "other_wellformed", wellformed(cx, obs["other_after"])
        if obs["mutation"] == "ok":
            yield "target_wellformed", wellformed(cx, obs["target_after"])


@register
class C12Static1D(_Base):
    group = "static1d"
    bounds_doc = "source: 1D histogram, 3 static bins, symbolic contents/errors2/under/overflow, metadata and statistics; every derivation in {copy, +, -, *, /, normalize, merge_bins, slice, mask, index array, JSON round trip, sum([h])} x every later mutation in {fill, fill_n, +=, *=, /=, dtype change, metadata edit, in-place merge} x mutated side (derived | source); fill value/weight and factors symbolic"

    def instances(self, tier):
        for d, m, side in itertools.product(DERIV_1D, MUTS, ("derived", "source")):
            if tier == "quick" and side == "source" and m in ("fill_n", "idiv", "iadd") and d not in ("slice", "copy"):
                continue
            yield f"1d-{d}-{m}-{side}", dict(deriv=d, mut=m, side=side)
        # sources that do not track missed values (keep_missed=False) + a later in-place add of a histogram that carries under/overflow
        for d, m, side, keep in itertools.product(["copy", "add", "mul", "slice", "sum1"], ["iadd_missed", "idiv", "fill"], ("derived", "source"), (False, True)):
            if keep and m != "iadd_missed":
                continue
            yield f"1d-{d}-{m}-{side}-keep{int(keep)}", dict(deriv=d, mut=m, side=side, keep=keep)
        # both operands carry identical metadata (name, title, axis name, custom entries), then metadata of one side is edited
        for d, side in itertools.product(["add", "sub"], ("derived", "source")):
            yield f"1d-{d}-meta-{side}-samemeta", dict(deriv=d, mut="meta", side=side, same_meta=True)
        # operands of different element types (int source with a float operand and the reverse): the result is promoted, neither operand is touched
        for d, mixed in itertools.product(["add", "sub"], ("gfloat", "hfloat")):
            yield f"1d-{d}-fill-derived-{mixed}", dict(deriv=d, mut="fill", side="derived", **{mixed[0] + "dtype": "float"})

    def declare(self, cx, p):
        x = {"f": declare_cells(cx, "f", [3], "int"), "q": declare_cells(cx, "q", [3], "int"), "e": declare_edges(cx, "e", 3), "u": cx.int("u", 0), "o": cx.int("o", 0),
             "g": declare_cells(cx, "g", [3], "int")}
        self._common_declare(cx, p, x)
        if cx.sym and p["deriv"] == "sub":
            cx.assume(*[a >= b for a, b in zip(x["f"], x["g"])])
        if cx.sym and p["deriv"] in ("normalize",):
            cx.assume(zsum(cx.t(i) for i in x["f"]) > 0)
        return x

    def _make(self, E, p, x):
        np = E.np
        H1 = E.mod("physt.histogram1d").Histogram1D
        St = E.mod("physt.statistics").Statistics
        e = np.asarray(x["e"])
        hdt = float if p.get("hdtype") == "float" else int
        h = H1(e, np.asarray(x["f"], dtype=hdt), np.asarray(x["q"], dtype=hdt), underflow=x["u"], overflow=x["o"], name="src", title="t", axis_name="ax",
               stats=St(sum=1.0, sum2=2.0, min=0.0, max=1.0, weight=3.0), custom="c", keep_missed=p.get("keep", True))
        gkw = dict(name="src", title="t", axis_name="ax", custom="c") if p.get("same_meta") else {}
        g = H1(np.asarray(x["e"]), np.asarray(x["g"], dtype=float if p.get("gdtype") == "float" else int), keep_missed=p.get("keep", True), **gkw)
        return h, g


@register
class C12Adaptive1D(_Base):
    group = "adaptive1d"
    bounds_doc = "source: adaptive fixed-width 1D histogram (width 1, 3 bins from a symbolic integer offset); derivations copy, +, *, merge, slice, JSON, sum([h]); mutations fill / fill_n with a symbolic value up to 3 bins outside (bin growth), +=, metadata"

    def instances(self, tier):
        for d, m, side in itertools.product(["copy", "add", "mul", "slice", "json", "sum1", "normalize"], ["fill", "fill_n", "iadd", "meta"], ("derived", "source")):
            yield f"1da-{d}-{m}-{side}", dict(deriv=d, mut=m, side=side)
        # a NON-adaptive fixed-width source: the derived object (or the source) is made adaptive later and grows - the other one keeps its bins
        for d, side in itertools.product(["copy", "mul", "sum1", "normalize", "json"], ("derived", "source")):
            yield f"1da-{d}-adapt_fill-{side}-nonadaptive", dict(deriv=d, mut="adapt_fill", side=side, nonadaptive=True)

    def declare(self, cx, p):
        x = {"f": declare_cells(cx, "f", [3], "int"), "g": declare_cells(cx, "g", [3], "int"), "t": cx.pyint("t", -2, 2), "d": cx.pyint("d", -2, 2)}
        self._common_declare(cx, p, x)
        if cx.sym:
            cx.assume(x["v"] >= x["t"] - 3, x["v"] < x["t"] + 6)
            if p["deriv"] == "normalize":
                cx.assume(zsum(cx.t(i) for i in x["f"]) > 0)
        return x

    def _make(self, E, p, x):
        np = E.np
        H1 = E.mod("physt.histogram1d").Histogram1D
        FWB = E.mod("physt.binnings").FixedWidthBinning
        ad = not p.get("nonadaptive")
        h = H1(FWB(bin_width=1.0, bin_count=3, bin_times_min=x["t"], adaptive=ad), np.asarray(x["f"], dtype=int), name="src", axis_name="ax")
        g = H1(FWB(bin_width=1.0, bin_count=3, bin_times_min=x["t"] + x["d"], adaptive=ad), np.asarray(x["g"], dtype=int))
        return h, g


@register
class C12Static2D(_Base):
    group = "static2d"
    bounds_doc = "source: 2D histogram 2x2 (static) with symbolic contents/errors2/missed; derivations copy, +, *, T, partial_normalize, accumulate, projection, integer select, slice select, merge, JSON; same mutations"

    def instances(self, tier):
        for d, m, side in itertools.product(DERIV_2D, MUTS, ("derived", "source")):
            if tier == "quick" and side == "source" and m in ("fill_n", "idiv", "iadd", "dtype"):
                continue
            yield f"2d-{d}-{m}-{side}", dict(deriv=d, mut=m, side=side)
        for d, m, side, keep in itertools.product(["copy", "add", "mul", "T"], ["iadd_missed", "idiv"], ("derived", "source"), (False, True)):
            if keep and m != "iadd_missed":
                continue
            yield f"2d-{d}-{m}-{side}-keep{int(keep)}", dict(deriv=d, mut=m, side=side, keep=keep)
        for side in ("derived", "source"):
            yield f"2d-add-meta-{side}-samemeta", dict(deriv="add", mut="meta", side=side, same_meta=True)

    def declare(self, cx, p):
        x = {"f": declare_cells(cx, "f", [2, 2], "int"), "q": declare_cells(cx, "q", [2, 2], "int"), "e": [declare_edges(cx, f"e{k}_", 2) for k in range(2)], "m": cx.int("m", 0),
             "g": declare_cells(cx, "g", [2, 2], "int")}
        self._common_declare(cx, p, x)
        return x

    def _make(self, E, p, x):
        np = E.np
        H2 = E.mod("physt.histogram_nd").Histogram2D
        mk = lambda f, **kw: H2([np.asarray(x["e"][0]), np.asarray(x["e"][1])], np.asarray(nested(f, [2, 2]), dtype=int), **kw)  # noqa: E731
        keep = p.get("keep", True)
        h = mk(x["f"], errors2=np.asarray(nested(x["q"], [2, 2]), dtype=int), missed=x["m"], name="src", title="t", axis_names=["a", "b"], custom="c", keep_missed=keep)
        gkw = dict(name="src", title="t", axis_names=["a", "b"], custom="c") if p.get("same_meta") else {}
        return h, mk(x["g"], keep_missed=keep, **gkw)


@register
class C12Adaptive2D(_Base):
    group = "adaptive2d"
    bounds_doc = "source: adaptive fixed-width 2D histogram (2x2 bins, width 1); derivations copy, projection, integer select, T, +; mutations fill / fill_n with symbolic value up to 3 bins outside (growth), metadata"

    def instances(self, tier):
        for d, m, side in itertools.product(["copy", "projection", "select_int", "T", "add", "select_slice"], ["fill", "fill_n", "meta"], ("derived", "source")):
            yield f"2da-{d}-{m}-{side}", dict(deriv=d, mut=m, side=side)

    def declare(self, cx, p):
        x = {"f": declare_cells(cx, "f", [2, 2], "int"), "g": declare_cells(cx, "g", [2, 2], "int")}
        self._common_declare(cx, p, x)
        if cx.sym:
            cx.assume(x["v"] >= -3, x["v"] < 5)
        return x

    def _make(self, E, p, x):
        np = E.np
        H2 = E.mod("physt.histogram_nd").Histogram2D
        FWB = E.mod("physt.binnings").FixedWidthBinning
        mk = lambda f, **kw: H2([FWB(bin_width=1.0, bin_count=2, bin_times_min=0, adaptive=True) for _ in range(2)], np.asarray(nested(f, [2, 2]), dtype=int), **kw)  # noqa: E731
        return mk(x["f"], name="src", axis_names=["a", "b"]), mk(x["g"])


@register
class C12Copy(Harness):
    prop = "C12"
    group = "copy"
    bounds_doc = "copy() == original with class, dtype, metadata, statistics (1D, 2D, transformed polar, collection); copy(include_frequencies=False) is empty and fillable over the same bins"

    def instances(self, tier):
        yield "copy-collection-adaptive", dict(kind="collection", empty=False, adaptive=True)
        yield "copy-2d-open", dict(kind="2d", empty=False, open=True)
        yield "copy-empty-2d-open", dict(kind="2d", empty=True, open=True)
        # an empty adaptive histogram created with align=False: the copy must grow exactly like its source
        for how in ("copy", "copy_empty", "mul1"):
            yield f"copy-unaligned-{how}", dict(kind="unaligned", empty=False, how=how)
        for kind in ("1d", "2d", "polar", "collection"):
            yield f"copy-{kind}", dict(kind=kind, empty=False)
            if kind != "collection":
                yield f"copy-empty-{kind}", dict(kind=kind, empty=True)

    def declare(self, cx, p):
        n = 3 if p["kind"] in ("1d", "collection") else 4
        x = {"f": declare_cells(cx, "f", [n], "int"), "v": cx.pyfloat("v")}
        return x

    def drive(self, E, p, x):
        np = E.np
        k = p["kind"]
        if k == "unaligned":
            H1 = E.mod("physt.histogram1d").Histogram1D
            FWB = E.mod("physt.binnings").FixedWidthBinning
            h = H1(FWB(bin_width=2.0, bin_count=0, adaptive=True, align=False))
            c = {"copy": lambda: h.copy(), "copy_empty": lambda: h.copy(include_frequencies=False), "mul1": lambda: h * 1}[p["how"]]()
            r1, r2 = E.attempt(h.fill, x["v"]), E.attempt(c.fill, x["v"])
            return {"unaligned": True, "fills": ["ok" if not isinstance(r, Raised) else r.name for r in (r1, r2)], "src": full(E, h), "der": full(E, c)}
        if k in ("1d", "collection"):
            H1 = E.mod("physt.histogram1d").Histogram1D
            St = E.mod("physt.statistics").Statistics
            if p.get("adaptive"):
                FWB = E.mod("physt.binnings").FixedWidthBinning
                h = H1(FWB(bin_width=1.0, bin_count=3, bin_times_min=0, adaptive=True), np.asarray(x["f"], dtype=int), name="n", axis_name="ax", custom="c",
                       stats=St(sum=1.0, sum2=2.0, min=0.0, max=1.0, weight=3.0))
            else:
                h = H1(np.asarray([0.0, 1.0, 2.0, 3.0]), np.asarray(x["f"], dtype=int), name="n", axis_name="ax", custom="c", stats=St(sum=1.0, sum2=2.0, min=0.0, max=1.0, weight=3.0))
            if k == "collection":
                HC = E.mod("physt.histogram_collection").HistogramCollection
                col = HC(h, h.copy(), name="col")
                c = col.copy()
                obs = {"eq": bool(c == col), "distinct": c is not col and c.histograms[0] is not col.histograms[0] and c.binning is not col.binning
                       and all(m.binning is not s.binning for m in c.histograms for s in col.histograms), "name": c.name}
                c.histograms[0].fill(7.5 if p.get("adaptive") else 0.5)   # adaptive: far outside, the copy's bins grow
                obs["source_after"] = full(E, col.histograms[0])
                obs["source_expected"] = full(E, h)
                obs["binning_shared_within_copy"] = c.histograms[0].binning is c.binning or bool(c.histograms[0].binning == c.binning)
                return obs
        elif k == "2d":
            H2 = E.mod("physt.histogram_nd").Histogram2D
            if p.get("open"):
                SB = E.mod("physt.binnings").StaticBinning
                mkb = lambda: SB([[0.0, 1.0], [1.0, 2.0]], includes_right_edge=False)  # noqa: E731
                h = H2([mkb(), mkb()], np.asarray(nested(x["f"], [2, 2]), dtype=int), name="n", axis_names=["a", "b"], custom="c")
            else:
                h = H2([np.asarray([0.0, 1.0, 2.0]), np.asarray([0.0, 1.0, 2.0])], np.asarray(nested(x["f"], [2, 2]), dtype=int), name="n", axis_names=["a", "b"], custom="c")
        else:
            PH = E.mod("physt.special_histograms").PolarHistogram
            h = PH([np.asarray([0.0, 1.0, 2.0]), np.asarray([0.0, 3.0, 6.0])], np.asarray(nested(x["f"], [2, 2]), dtype=int), name="n", custom="c")
        c = h.copy(include_frequencies=not p["empty"])
        obs = {"eq": bool(c == h), "distinct": c is not h, "copy": full(E, c), "orig": full(E, h)}
        if p["empty"]:
            val = x["v"] if h.ndim == 1 else [x["v"], x["v"]]
            r = E.attempt(c.fill, val, transformed=True) if k == "polar" else E.attempt(c.fill, val)
            obs["fill"] = {"raised": r} if isinstance(r, Raised) else "ok"
            obs["copy_after_fill"] = full(E, c)
            obs["orig_after"] = full(E, h)
        return obs

    def oracle(self, cx, p, x, obs):
        yield "no_exception", obs.get("raised") is None
        if obs.get("raised") is not None:
            return
        if obs.get("unaligned"):
            yield "both_fills_accepted", obs["fills"] == ["ok", "ok"]
            a, b = obs["src"], obs["der"]
            yield "copy_grows_like_its_source", z3.And([cx.t(u) == cx.t(w) for u, w in zip(flat(a["bins"]), flat(b["bins"]))] + [z3.BoolVal(len(flat(a["bins"])) == len(flat(b["bins"])) and len(flat(a["freq"])) == len(flat(b["freq"])))]
                                                       + [cx.eq(u, cx.t(w)) for u, w in zip(flat(a["freq"]), flat(b["freq"]))])
            return
        if p["kind"] == "collection":
            yield "copy_equal", obs["eq"] is True
            yield "copy_distinct", obs["distinct"] is True and obs["name"] == "col"
            yield "member_independent", z3.And(same_snapshot(cx, obs["source_expected"], obs["source_after"]), wellformed(cx, obs["source_after"]))
            return
        yield "copy_distinct", obs["distinct"] is True
        c, o = obs["copy"], obs["orig"]
        if not p["empty"]:
            yield "copy_equal", obs["eq"] is True
            yield "copy_identical_snapshot", same_snapshot(cx, c, o)
            return
        yield "empty_contents", z3.And([cx.eq(v, 0) for v in flat(c["freq"]) + flat(c["err2"]) + flat(c["missed"])])
        if "stats" in c:
            # an empty copy starts with empty statistics (weight, sum, sum2 zero) - not the source's
            yield "empty_statistics", z3.And([cx.eq(v, 0) for v in c["stats"][:3]])
            if obs["fill"] == "ok" and p["kind"] == "1d":
                st = obs["copy_after_fill"]["stats"]
                v = cx.t(x["v"])
                inside = z3.And(v >= 0, v <= 3)
                yield "statistics_of_the_new_data_only", z3.Implies(inside, z3.And(cx.eq(st[2], 1), cx.eq(st[0], v), cx.eq(st[3], v), cx.eq(st[4], v)))
        yield "same_bins_meta", z3.And([cx.t(a) == cx.t(b) for a, b in zip(flat(c["bins"]), flat(o["bins"]))] + [z3.BoolVal(c["right_flags"] == o["right_flags"] and c["name"] == o["name"] and c["axis_names"] == o["axis_names"] and c["cls"] == o["cls"] and c["dtype"] == o["dtype"] and c["custom"] == o["custom"])])
        yield "fillable", obs["fill"] == "ok"
        yield "fill_counts_once", cx.t(zsum_leafs(cx, obs["copy_after_fill"]["freq"])) + zsum_leafs(cx, obs["copy_after_fill"]["missed"]) == 1 if obs["fill"] == "ok" else False
        yield "original_untouched", same_snapshot(cx, o, obs["orig_after"])


def zsum_leafs(cx, a):
    return zsum(cx.t(v) for v in flat(a))
