"""C15 - transformed histograms bin points by their true coordinates."""
from __future__ import annotations

import math

import z3

from symx.api import Harness, Raised, register
from symx.scalars import lift_num

from .common import declare_edges, getcell, nested, product_indices, zsum

TWO_PI = lift_num(2 * math.pi)
PI = lift_num(math.pi)

CLS = {
    "polar": ("PolarHistogram", 2, ["r", "phi"]),
    "radial2": ("RadialHistogram", 2, ["r"]),
    "radial3": ("RadialHistogram", 3, ["r3"]),
    "azimuthal": ("AzimuthalHistogram", 2, ["phi"]),
    "spherical": ("SphericalHistogram", 3, ["r3", "theta", "phi"]),
    "sphere_surface": ("SphericalSurfaceHistogram", 3, ["theta", "phi"]),
    "cylindrical": ("CylindricalHistogram", 3, ["r", "phi", "z"]),
    "cylinder_surface": ("CylindricalSurfaceHistogram", 3, ["phi", "z"]),
}


def ref_coords(kinds, pt):
    """Reference coordinates of a Cartesian point (z3 terms) built from the engine's primitives."""
    from symx import transcend as T

    x, y = pt[0], pt[1]
    z = pt[2] if len(pt) > 2 else None
    UF = T._UF
    out, side = [], []
    for k in kinds:
        if k == "r":
            r = UF["hypot"](x, y)
            side += [r >= 0, r * r == x * x + y * y]
            out.append(r)
        elif k == "r3":
            r = z3.Real(f"ref_r3_{len(side)}")
            side += [r >= 0, r * r == x * x + y * y + z * z]
            out.append(r)
        elif k == "phi":
            if z3.is_rational_value(y) and y.numerator_as_long() == 0:
                # point on the x axis (y = +0.0 or -0.0): phi is pi on the negative side, 0 otherwise - whatever the sign of the zero
                out.append(z3.If(x < 0, PI, z3.RealVal(0)))
                continue
            a = UF["atan2"](y, x)
            out.append(z3.If(a < 0, a + TWO_PI, a))
        elif k == "theta":
            rho = UF["hypot"](x, y)
            side += [rho >= 0, rho * rho == x * x + y * y]
            out.append(UF["atan2"](rho, z))
        else:
            out.append(z)
    return out, side


def _pt(cx, name, d):
    return [cx.real(f"{name}{'xyzw'[k]}") for k in range(d)]


@register
class C15Transform(Harness):
    prop = "C15"
    group = "transform"
    stubs = ("hypot: r >= 0 and r^2 = x^2 + y^2 (exact); arctan2 as an uninterpreted function with sound sign/range axioms",)
    bounds_doc = "Class.transform for a symbolic Cartesian point (single point and a 2-row array) for all classes: r >= 0 with r^2 = x^2+y^2(+z^2), phi = atan2(y, x) folded into [0, 2pi], theta = atan2(hypot(x, y), z) in [0, pi], z unchanged; wrong dimensionality refused"

    def instances(self, tier):
        for name in CLS:
            yield f"tf-{name}-point", dict(cls=name, rows=1)
            yield f"tf-{name}-array", dict(cls=name, rows=2)
            yield f"tf-{name}-wrongdim", dict(cls=name, rows=0)
            # a block with more than two array dimensions whose last axis has the right length (1 x 1 x d): refused as well,
            # by transform and by fill_n
            yield f"tf-{name}-block3d", dict(cls=name, rows=0, block=True)

    def declare(self, cx, p):
        d = CLS[p["cls"]][1]
        if p["rows"] == 0 and p.get("block"):
            return {"p": [_pt(cx, "p", d)]}
        if p["rows"] == 0:
            return {"p": [_pt(cx, "p", 3 if (d == 2 and p["cls"] != "radial2") else 4)]}
        x = {"p": [_pt(cx, f"p{i}", d) for i in range(p["rows"])]}
        if cx.sym:
            for row in x["p"]:
                cx.assume(*[z3.And(cx.t(c) >= -100, cx.t(c) <= 100) for c in row])
        return x


    def witness_hints(self, cx, p, x):
        pts = x["p"] if isinstance(x["p"][0], list) else [x["p"]]
        cons = []
        for row in pts:
            t = [cx.t(c) for c in row]
            nz = [z3.And([t[j] == 0 for j in range(len(t)) if j != i] + [z3.ToReal(z3.ToInt(t[i] * 4)) == t[i] * 4]) for i in range(len(t))]
            cons.append(z3.Or(nz))
        return [("uf_exact", cons)]

    def drive(self, E, p, x):
        np = E.np
        cls = getattr(E.mod("physt.special_histograms"), CLS[p["cls"]][0])
        if p["rows"] == 0 and p.get("block"):
            block = np.asarray([[x["p"][0]]], dtype=float)
            r = E.attempt(cls.transform, block)
            return {"res": {"raised": r} if isinstance(r, Raised) else {"shape": list(getattr(r, "shape", ()))}}
        if p["rows"] == 0:
            r = E.attempt(cls.transform, np.asarray(x["p"][0], dtype=float))
            return {"res": {"raised": r} if isinstance(r, Raised) else {"shape": list(getattr(r, "shape", ()))}}
        arg = np.asarray(x["p"][0] if p["rows"] == 1 else x["p"], dtype=float)
        r = E.attempt(cls.transform, arg)
        if isinstance(r, Raised):
            return {"res": {"raised": r}}
        return {"res": r.tolist() if hasattr(r, "tolist") else r, "shape": list(getattr(r, "shape", ()))}

    def oracle(self, cx, p, x, obs):
        yield "no_harness_exception", obs.get("raised") is None
        if obs.get("raised") is not None:
            return
        res = obs["res"]
        kinds = CLS[p["cls"]][2]
        if p["rows"] == 0:
            yield "wrong_dimension_refused", isinstance(res, dict) and "raised" in res and res["raised"].name == "ValueError"
            return
        yield "no_exception", not (isinstance(res, dict) and "raised" in res)
        if isinstance(res, dict):
            return
        rows = [res] if p["rows"] == 1 else res
        for i, (row, pt) in enumerate(zip(rows, x["p"])):
            got = row if isinstance(row, list) else [row]
            yield f"coordinate_count[{i}]", len(got) == len(kinds)
            if len(got) != len(kinds):
                continue
            pts = [cx.t(c) for c in pt]
            ref, side = ref_coords(kinds, pts)
            for k, kind in enumerate(kinds):
                g = cx.t(got[k]) if cx.finite(got[k]) else None
                if g is None:
                    yield f"{kind}[{i}]", False
                    continue
                if kind == "r":
                    yield f"r[{i}]", z3.And(g >= 0, g * g == pts[0] * pts[0] + pts[1] * pts[1])
                elif kind == "r3":
                    yield f"r[{i}]", z3.And(g >= 0, g * g == pts[0] * pts[0] + pts[1] * pts[1] + pts[2] * pts[2])
                elif kind == "phi":
                    yield f"phi[{i}]", z3.And(g == ref[k], g >= 0, g <= TWO_PI)
                elif kind == "theta":
                    yield f"theta[{i}]", z3.Implies(z3.And(side), z3.And(g == ref[k], g >= 0, g <= PI))
                else:
                    yield f"z[{i}]", g == pts[2]


def _decl_bins(cx, kinds):
    out = []
    for k, kind in enumerate(kinds):
        e = cx.reals(f"e{k}_", 3)
        if cx.sym:
            cx.assume(e[0] < e[1], e[1] < e[2])
            if kind in ("r", "r3"):
                cx.assume(e[0] >= 0, e[2] <= 200)
            elif kind == "phi":
                cx.assume(e[0] >= 0, e[2] <= 2 * math.pi)
            elif kind == "theta":
                cx.assume(e[0] >= 0, e[2] <= math.pi)
            else:
                cx.assume(e[0] >= -100, e[2] <= 100)
        out.append(e)
    return out


def cx_plain(v):
    """Index observables (ints / tuples of ints / None) as plain python values."""
    if v is None:
        return None
    if isinstance(v, (list, tuple)):
        return tuple(cx_plain(i) for i in v)
    return int(getattr(v, "v", v))


@register
class C15Paths(Harness):
    prop = "C15"
    group = "paths"
    stubs = C15Transform.stubs
    bounds_doc = "one symbolic Cartesian point and symbolic bins (2 per axis): fill, fill_n, find_bin, the facade function and entering transform(p) with transformed=True all put it into the same bin, the reference bin of its reference coordinates"

    def instances(self, tier):
        for name in CLS:
            for way in ("fill", "fill_n", "find_bin", "facade", "fill_transformed", "fill_n_transformed"):
                yield f"path-{name}-{way}", dict(cls=name, way=way)
            # histories that pass the SAME float64 array object to several entry paths (the caller's array must not be consumed)
            # IEEE negative zero as y coordinate of a point on the x axis (arctan2(-0.0, x<0) is -pi, to be folded to +pi)
            if "phi" in CLS[name][2]:
                for way in ("fill", "fill_n", "find_bin") + (("facade",) if name != "cylinder_surface" else ()):
                    yield f"path-{name}-{way}-negzero", dict(cls=name, way=way, negzero=True)
            if name in ("polar", "spherical", "sphere_surface", "cylindrical"):
                yield f"path-{name}-facade_transformed", dict(cls=name, way="facade_transformed")
                # (see below)
                # the angular axes given as a NUMBER of bins (the facades' default form): equal bins over the full angular range
                yield f"path-{name}-facade-intbins", dict(cls=name, way="facade", intbins=True)
            if name in ("radial2", "radial3", "azimuthal", "polar"):
                # separate coordinate arrays holding exactly three observations (a length that equals the dimension of space)
                yield f"path-{name}-facade-3points", dict(cls=name, way="facade", npoints=3)
            for way in ("find_then_fill", "fill_n_twice") + (("facade_then_fill_n",) if name in ("spherical", "sphere_surface", "cylindrical") else ()):
                yield f"path-{name}-{way}", dict(cls=name, way=way)

    def declare(self, cx, p):
        d = CLS[p["cls"]][1]
        x = {"p": _pt(cx, "p", d), "e": _decl_bins(cx, CLS[p["cls"]][2])}
        if p.get("intbins"):
            for k, kind in enumerate(CLS[p["cls"]][2]):
                if kind in ("phi", "theta"):
                    top = 2 * math.pi if kind == "phi" else math.pi
                    x["e"][k] = [0.0, 1 * (top / 2), top]     # what np.linspace(0, top, 3) gives
        if cx.sym:
            cx.assume(*[z3.And(cx.t(c) >= -100, cx.t(c) <= 100) for c in x["p"]])
        if p.get("negzero"):
            if cx.sym:
                cx.assume(x["p"][1] == 0)
            x["p"] = [x["p"][0], -0.0] + list(x["p"][2:])
        return x


    def witness_hints(self, cx, p, x):
        pts = x["p"] if isinstance(x["p"][0], list) else [x["p"]]
        cons = []
        for row in pts:
            t = [cx.t(c) for c in row]
            nz = [z3.And([t[j] == 0 for j in range(len(t)) if j != i] + [z3.ToReal(z3.ToInt(t[i] * 4)) == t[i] * 4]) for i in range(len(t))]
            cons.append(z3.Or(nz))
        return [("uf_exact", cons)]

    def _hist(self, E, p, x):
        np = E.np
        cls = getattr(E.mod("physt.special_histograms"), CLS[p["cls"]][0])
        bins = [np.asarray(e) for e in x["e"]]
        return cls(bins[0]) if len(bins) == 1 else cls(bins)

    def drive(self, E, p, x):
        np = E.np
        sp = E.mod("physt.special_histograms")
        way = p["way"]
        name = p["cls"]
        pt = np.asarray(x["p"], dtype=float)
        bins = [np.asarray(e) for e in x["e"]]
        obs = {}
        if way == "facade_transformed":
            cls = getattr(sp, CLS[name][0])
            t = E.attempt(cls.transform, np.asarray([x["p"]], dtype=float))
            if isinstance(t, Raised):
                return {"op": {"raised": t}}
            if name == "polar":
                r = E.attempt(sp.polar, t[:, 0], t[:, 1], radial_bins=bins[0], phi_bins=bins[1], transformed=True)
            elif name == "spherical":
                r = E.attempt(sp.spherical, t, radial_bins=bins[0], theta_bins=bins[1], phi_bins=bins[2], transformed=True)
            elif name == "sphere_surface":
                r = E.attempt(sp.spherical_surface, t, theta_bins=bins[0], phi_bins=bins[1], transformed=True)
            else:
                r = E.attempt(sp.cylindrical, t, rho_bins=bins[0], phi_bins=bins[1], z_bins=bins[2], transformed=True)
            if isinstance(r, Raised):
                return {"op": {"raised": r}}
            return {"op": "ok", "freq": r.frequencies.tolist(), "cls": type(r).__name__, "total": r.total}
        if way == "facade":
            xs = [np.asarray([c] * p.get("npoints", 1), dtype=float) for c in x["p"]]
            data = np.asarray([x["p"]], dtype=float)
            if p.get("intbins"):
                bins = [2 if kind in ("phi", "theta") else b for kind, b in zip(CLS[name][2], bins)]
            if name == "polar":
                r = E.attempt(sp.polar, xs[0], xs[1], radial_bins=bins[0], phi_bins=bins[1])
            elif name == "radial2":
                r = E.attempt(sp.radial, xs[0], xs[1], bins=bins[0])
            elif name == "radial3":
                r = E.attempt(sp.radial, xs[0], xs[1], xs[2], bins=bins[0])
            elif name == "azimuthal":
                r = E.attempt(sp.azimuthal, xs[0], xs[1], bins=bins[0])
            elif name == "spherical":
                r = E.attempt(sp.spherical, data, radial_bins=bins[0], theta_bins=bins[1], phi_bins=bins[2])
            elif name == "sphere_surface":
                r = E.attempt(sp.spherical_surface, data, theta_bins=bins[0], phi_bins=bins[1])
            elif name == "cylindrical":
                r = E.attempt(sp.cylindrical, data, rho_bins=bins[0], phi_bins=bins[1], z_bins=bins[2])
            else:
                r = E.attempt(sp.cylindrical_surface, data, phi_bins=bins[0], z_bins=bins[1])
            if isinstance(r, Raised):
                return {"op": {"raised": r}}
            return {"op": "ok", "freq": r.frequencies.tolist(), "cls": type(r).__name__, "total": r.total}
        if way == "facade_then_fill_n":
            data = np.asarray([x["p"]], dtype=float)
            fn, kw = {"spherical": (sp.spherical, dict(radial_bins=bins[0], theta_bins=bins[1], phi_bins=bins[2])) if len(bins) == 3 else None,
                      "sphere_surface": (sp.spherical_surface, dict(theta_bins=bins[0], phi_bins=bins[1])) if len(bins) == 2 else None,
                      "cylindrical": (sp.cylindrical, dict(rho_bins=bins[0], phi_bins=bins[1], z_bins=bins[2])) if len(bins) == 3 else None,
                      "cylinder_surface": (sp.cylindrical_surface, dict(phi_bins=bins[0], z_bins=bins[1])) if len(bins) == 2 else None}[name]
            r = E.attempt(fn, data, dropna=False, **kw)
            if isinstance(r, Raised):
                return {"op": {"raised": r}}
            r2 = E.attempt(r.fill_n, data)
            if isinstance(r2, Raised):
                return {"op": {"raised": r2}}
            return {"op": "ok", "freq": r.frequencies.tolist(), "total": r.total, "input_after": data.tolist()[0]}
        h = self._hist(E, p, x)
        if way == "find_then_fill":
            i1 = E.attempt(h.find_bin, pt)
            if isinstance(i1, Raised):
                return {"op": {"raised": i1}}
            r = E.attempt(h.fill, pt)
            if isinstance(r, Raised):
                return {"op": {"raised": r}}
            return {"op": "ok", "index": r, "index_found": i1, "freq": h.frequencies.tolist(), "total": h.total, "input_after": pt.tolist()}
        if way == "fill_n_twice":
            data = np.asarray([x["p"]], dtype=float)
            for _ in range(2):
                r = E.attempt(h.fill_n, data)
                if isinstance(r, Raised):
                    return {"op": {"raised": r}}
            return {"op": "ok", "freq": h.frequencies.tolist(), "total": h.total, "input_after": data.tolist()[0]}
        if way == "find_bin":
            r = E.attempt(h.find_bin, pt)
            return {"op": {"raised": r} if isinstance(r, Raised) else "ok", "index": None if isinstance(r, Raised) else r, "freq": h.frequencies.tolist(), "total": h.total}
        if way == "fill":
            r = E.attempt(h.fill, pt)
        elif way == "fill_n":
            r = E.attempt(h.fill_n, np.asarray([x["p"]], dtype=float))
        else:
            t = E.attempt(type(h).transform, pt)
            if isinstance(t, Raised):
                return {"op": {"raised": t}}
            if way == "fill_transformed":
                r = E.attempt(h.fill, t, transformed=True)
            else:
                tn = E.attempt(type(h).transform, np.asarray([x["p"]], dtype=float))
                r = E.attempt(h.fill_n, tn, transformed=True) if not isinstance(tn, Raised) else tn
        if isinstance(r, Raised):
            return {"op": {"raised": r}}
        return {"op": "ok", "index": r if way in ("fill", "fill_transformed") else None, "freq": h.frequencies.tolist(), "total": h.total}

    def oracle(self, cx, p, x, obs):
        yield "no_harness_exception", obs.get("raised") is None
        if obs.get("raised") is not None:
            return
        yield "no_exception", obs["op"] == "ok"
        if obs["op"] != "ok":
            return
        kinds = CLS[p["cls"]][2]
        pts = [cx.t(c) for c in x["p"]]
        ref, side = ref_coords(kinds, pts)
        e = [[cx.t(t) for t in ax] for ax in x["e"]]
        D = len(kinds)
        # 1D histograms close their last bin; ND ones follow includes_right_edge (True for StaticBinning from arrays)
        memb = [[z3.And(e[k][j] <= ref[k], (ref[k] <= e[k][j + 1]) if j == 1 else (ref[k] < e[k][j + 1])) for j in range(2)] for k in range(D)]
        pre = z3.And(side) if side else z3.BoolVal(True)
        freq = obs["freq"]
        times = 2 if p["way"] in ("fill_n_twice", "facade_then_fill_n") else p.get("npoints", 1)
        if p["way"] != "find_bin":
            for idx in product_indices([2] * D):
                inc = z3.And([memb[k][idx[k]] for k in range(D)])
                cell = getcell(freq, idx) if D > 1 else freq[idx[0]]
                yield f"cell[{','.join(map(str, idx))}]", z3.Implies(pre, cx.eq(cell, z3.If(inc, times, 0)))
        if "input_after" in obs:
            yield "caller_array_unchanged", z3.And([cx.t(a) == b for a, b in zip(obs["input_after"], pts)])
        if "index_found" in obs:
            yield "find_bin_and_fill_agree", z3.BoolVal(repr(cx_plain(obs["index_found"])) == repr(cx_plain(obs["index"])))
        idx_obs = obs.get("index")
        if p["way"] in ("fill", "fill_transformed", "find_bin", "find_then_fill"):
            inside = z3.And([z3.Or(memb[k]) for k in range(D)])
            if idx_obs is None or (isinstance(idx_obs, int) and D == 1 and idx_obs in (-1, 2)):
                yield "reported_outside_only_if_outside", z3.Implies(pre, z3.Not(inside))
            else:
                tup = idx_obs if isinstance(idx_obs, (list, tuple)) else [idx_obs]
                yield "reported_bin_is_reference_bin", z3.Implies(pre, z3.And([z3.And([z3.Implies(memb[k][j], cx.t(tup[k]) == j) for j in range(2)] + [z3.Or(memb[k])]) for k in range(D)]))


@register
class C15Projections(Harness):
    prop = "C15"
    group = "projections"
    bounds_doc = "projections of polar / spherical / cylindrical histograms (2 bins per axis, symbolic contents and edges) onto every coordinate subset: special class, marginal contents, cylinder-surface radius"

    MAP = {
        "polar": {(0,): "RadialHistogram", (1,): "AzimuthalHistogram"},
        "spherical": {(0,): "RadialHistogram", (1, 2): "SphericalSurfaceHistogram", (1,): "Histogram1D", (0, 1): "Histogram2D", (2,): "Histogram1D"},
        "cylindrical": {(0,): "RadialHistogram", (1,): "AzimuthalHistogram", (0, 1): "PolarHistogram", (1, 2): "CylindricalSurfaceHistogram", (2,): "Histogram1D", (0, 2): "Histogram2D"},
        "cylinder_surface": {(0,): "AzimuthalHistogram", (1,): "Histogram1D"},
        "sphere_surface": {(0,): "Histogram1D", (1,): "Histogram1D"},
    }

    def instances(self, tier):
        for name, m in self.MAP.items():
            for axes in m:
                yield f"proj-{name}-{''.join(map(str, axes))}", dict(cls=name, axes=list(axes))

    def declare(self, cx, p):
        kinds = CLS[p["cls"]][2]
        D = len(kinds)
        x = {"e": _decl_bins(cx, kinds), "f": cx.ints("f", 2 ** D, 0, 50)}
        return x

    def drive(self, E, p, x):
        np = E.np
        cls = getattr(E.mod("physt.special_histograms"), CLS[p["cls"]][0])
        D = len(x["e"])
        h = cls([np.asarray(e) for e in x["e"]], np.asarray(nested(x["f"], [2] * D), dtype=int))
        r = E.attempt(h.projection, *p["axes"])
        if isinstance(r, Raised):
            return {"res": {"raised": r}}
        out = {"cls": type(r).__name__, "freq": r.frequencies.tolist(), "bins": [r.bins.tolist()] if r.ndim == 1 else [b.tolist() for b in r.bins], "total": r.total,
               "axis_names": list(r.axis_names)}
        if hasattr(r, "radius"):
            out["radius"] = r.radius
        return {"res": out, "parent_axis_names": list(h.axis_names)}

    def oracle(self, cx, p, x, obs):
        yield "no_harness_exception", obs.get("raised") is None
        if obs.get("raised") is not None:
            return
        res = obs["res"]
        yield "no_exception", "raised" not in res
        if "raised" in res:
            return
        axes = p["axes"]
        yield "projection_class", res["cls"] == self.MAP[p["cls"]][tuple(axes)]
        D = len(x["e"])
        idxs = product_indices([2] * D)
        f = {i: cx.t(v) for i, v in zip(idxs, x["f"])}
        for kidx in product_indices([2] * len(axes)):
            ref = zsum(v for i, v in f.items() if all(i[a] == kidx[t] for t, a in enumerate(axes)))
            cell = getcell(res["freq"], kidx) if len(axes) > 1 else res["freq"][kidx[0]]
            yield f"marginal[{','.join(map(str, kidx))}]", cx.eq(cell, ref)
        for t, a in enumerate(axes):
            yield f"bins[{t}]", z3.And([z3.And(cx.t(res["bins"][t][j][0]) == cx.t(x["e"][a][j]), cx.t(res["bins"][t][j][1]) == cx.t(x["e"][a][j + 1])) for j in range(2)])
        yield "axis_names", res["axis_names"] == [obs["parent_axis_names"][a] for a in axes]
        if res["cls"] == "CylindricalSurfaceHistogram":
            yield "surface_radius", cx.eq(res["radius"], cx.t(x["e"][0][2]))
