"""C13 - content dtype is consistent and never loses information."""
from __future__ import annotations

import itertools

import z3

from symx.api import Harness, Raised, register

from .common import snap1d, snapnd, nested, zsum

DTYPES = ["int16", "int32", "int64", "float16", "float32", "float64", "float128"]
RANK = {d: i for i, d in enumerate(DTYPES)}
I2F = {"int16": "float32", "int32": "float64", "int64": "float64"}
INFO = {"int16": 2**15 - 1, "int32": 2**31 - 1, "int64": 2**63 - 1, "float16": 65504.0, "float32": 3.4028234663852886e38, "float64": 1.7976931348623157e308, "float128": 2 ** 16383}


def promote(a, b):
    if a == b:
        return a
    if a[0] == b[0]:
        return a if RANK[a] >= RANK[b] else b
    i, f = (a, b) if a[0] == "i" else (b, a)
    need = I2F[i]
    return need if RANK[need] >= RANK[f] else f


def can_cast(a, b):
    return promote(a, b) == b


OPS = ["fill_int", "fill_float", "fill_float_out", "fill_npf32", "fill_npi64", "filln_none", "filln_int", "filln_float", "add", "sub", "iadd", "isub", "mul_int", "mul_float", "imul_float", "div", "idiv", "normalize", "merge", "setdtype"]


@register
class C13Ops(Harness):
    prop = "C13"
    group = "ops"
    bounds_doc = "1D (2 bins) and 2D (2x1) histograms of every supported dtype {int16,int32,int64,float16,float32,float64} with symbolic integral contents in [0,50] x one operation of {fill (int / float weight), fill_n (no / int / float weights of dtype T1), + - += -= with a histogram of dtype T1, * / by python int / float, normalize, merge_bins, dtype = T1}; float weights and factors are symbolic multiples of 1/4 (exact in every float type)"

    def instances(self, tier):
        for t0 in DTYPES:
            for op in OPS:
                t1s = [None]
                if op in ("add", "sub", "iadd", "isub", "setdtype", "filln_float", "filln_int"):
                    t1s = DTYPES if op not in ("filln_float", "filln_int") else ([d for d in DTYPES if d[0] == ("f" if op == "filln_float" else "i")])
                for t1 in t1s:
                    if tier == "quick":
                        if t0 in ("int32", "float32") and op not in ("setdtype", "sub", "isub"):
                            continue
                        if t1 in ("int32", "float16") and op not in ("setdtype",):
                            continue
                    yield f"op-{t0}-{op}-{t1}", dict(t0=t0, op=op, t1=t1, nd=False)
        for t0, op in itertools.product(("int64", "float32", "int16"), ("fill_float", "fill_npf32", "fill_npi64", "filln_float", "isub", "div", "setdtype")):
            yield f"op2d-{t0}-{op}", dict(t0=t0, op=op, t1="float64" if op != "setdtype" else "int16", nd=True)
        # normalisations of 2D histograms along one axis / overall: the element type is promoted to hold fractions, never narrowed
        for t0, op in itertools.product(("int64", "float32", "float128", "int16"), ("partial", "normalize")):
            yield f"op2d-{t0}-{op}", dict(t0=t0, op=op, t1=None, nd=True)
        # cumulative sums along an axis: numpy accumulates narrow integers in int64 - the histogram reports what its arrays hold
        for t0 in ("int16", "int32", "int64", "float32", "float64"):
            yield f"op2d-{t0}-accumulate", dict(t0=t0, op="accumulate", t1=None, nd=True)

    def declare(self, cx, p):
        x = {"f": cx.ints("f", 2, 0, 50), "q": cx.ints("q", 2, 0, 50), "g": cx.ints("g", 2, 0, 50), "k": cx.int("k", 1, 8), "n": cx.pyint("n", 1, 3), "v": cx.pyfloat("v")}
        if p["op"] == "setdtype":
            # contents that may be fractional / out of range for the target
            x["big"] = cx.int("big", 0, 70000 if p["t0"] != "float64" else 1048576)
            x["frac"] = cx.int("frac", 0, 3)
        if cx.sym and p["op"] == "setdtype":
            big, frac = cx.t(x["big"]), cx.t(x["frac"])
            # keep every content exactly representable in the narrow float types involved (R-mode has no rounding)
            if p["t0"] == "float16":
                cx.assume(big <= 2048)
            elif p["t1"] == "float16":
                cx.assume(z3.Or(big <= 2048, big >= 65536))
            # fractional contents: small ones everywhere; for float64 sources also large ones (a quarter beside 2^17 .. 2^20 - far below any relative tolerance)
            if p["t0"] == "float64":
                cx.assume(z3.Or(frac == 0, big <= 256, z3.And(big >= 131072, big <= 1048576)))
            else:
                cx.assume(z3.Or(frac == 0, big <= 256))
            if p["t0"][0] == "i":
                cx.assume(big <= int(INFO[p["t0"]]))
        if cx.sym and p["op"] == "fill_float_out":
            # a value outside the bins [0, 2]: the float weight goes to underflow / overflow
            cx.assume(z3.Or(z3.And(cx.t(x["v"]) >= -1, cx.t(x["v"]) < 0), z3.And(cx.t(x["v"]) > 2, cx.t(x["v"]) <= 3)))
        elif cx.sym:
            cx.assume(x["v"] >= 0, x["v"] <= 2)
            if p["op"] in ("sub", "isub"):
                cx.assume(*[a >= b for a, b in zip(x["f"], x["g"])])
            if p["op"] in ("normalize", "partial"):
                cx.assume(zsum(cx.t(i) for i in x["f"]) > 0)
        return x

    def _mk(self, E, p, vals, dt, q=None):
        np = E.np
        if p["nd"]:
            H2 = E.mod("physt.histogram_nd").Histogram2D
            return H2([np.asarray([0.0, 1.0, 2.0]), np.asarray([0.0, 2.0])], np.asarray([[vals[0]], [vals[1]]], dtype=dt),
                      errors2=(np.asarray([[q[0]], [q[1]]], dtype=dt) if q is not None else None))
        H1 = E.mod("physt.histogram1d").Histogram1D
        return H1(np.asarray([0.0, 1.0, 2.0]), np.asarray(vals, dtype=dt), np.asarray(q, dtype=dt) if q is not None else None)

    def drive(self, E, p, x):
        np = E.np
        op, t0, t1 = p["op"], p["t0"], p["t1"]
        vals = list(x["f"])
        if op == "setdtype":
            if t0[0] == "f":
                vals = [x["big"] + x["frac"] / 4.0, x["f"][1]]
            else:
                vals = [x["big"], x["f"][1]]
        h = self._mk(E, p, vals, t0, x["q"])
        snap = snapnd if p["nd"] else snap1d
        before = snap(E, h)
        wf = x["k"] / 4.0
        val = x["v"] if not p["nd"] else [x["v"], 0.5]
        vals_n = np.asarray([x["v"]]) if not p["nd"] else np.asarray([[x["v"], 0.5]])

        def run():
            if op == "fill_int":
                h.fill(val, x["n"])
                return h
            if op in ("fill_float", "fill_float_out"):
                h.fill(val, float(wf) if not E.sym else wf)
                return h
            if op == "fill_npf32":
                h.fill(val, np.asarray([wf], dtype="float32")[0])      # a numpy float32 scalar as weight
                return h
            if op == "fill_npi64":
                h.fill(val, np.asarray([x["n"]], dtype="int64")[0])     # a numpy int64 scalar as weight
                return h
            if op == "filln_none":
                h.fill_n(vals_n)
                return h
            if op == "filln_int":
                h.fill_n(vals_n, weights=np.asarray([x["n"]], dtype=t1))
                return h
            if op == "filln_float":
                h.fill_n(vals_n, weights=np.asarray([wf], dtype=t1))
                return h
            if op in ("add", "sub", "iadd", "isub"):
                g = self._mk(E, p, x["g"], t1)
                if op == "add":
                    return h + g
                if op == "sub":
                    return h - g
                r = h
                if op == "iadd":
                    r += g
                else:
                    r -= g
                return r
            if op == "mul_int":
                return h * x["n"]
            if op == "mul_float":
                return h * (float(wf) if not E.sym else wf)
            if op == "imul_float":
                r = h
                r *= (float(wf) if not E.sym else wf)
                return r
            if op == "div":
                return h / x["n"]
            if op == "idiv":
                r = h
                r /= x["n"]
                return r
            if op == "normalize":
                return h.normalize()
            if op == "partial":
                return h.partial_normalize(0)
            if op == "accumulate":
                return h.accumulate(0)
            if op == "merge":
                return h.merge_bins(2)
            h.dtype = t1
            return h

        r = E.attempt(run)
        obs = {"before": before, "after_src": snap(E, h)}
        if isinstance(r, Raised):
            obs["op_raised"] = r
        else:
            obs["res"] = snap(E, r)
            obs["missed_dtype"] = str(r._missed.dtype)
        return obs

    def oracle(self, cx, p, x, obs):
        op, t0, t1 = p["op"], p["t0"], p["t1"]
        yield "no_harness_exception", obs.get("raised") is None
        if obs.get("raised") is not None:
            return
        f = [cx.t(i) for i in x["f"]]
        g = [cx.t(i) for i in x["g"]]
        q = [cx.t(i) for i in x["q"]]
        k4 = z3.ToReal(cx.t(x["k"])) / 4
        n = cx.t(x["n"])
        v = cx.t(x["v"])
        raised = obs.get("op_raised")
        flat = lambda a: [i for row in a for i in (row if isinstance(row, list) else [row])]  # noqa: E731
        in0, in1 = z3.And(v >= 0, v < 1), z3.And(v >= 1, v <= 2)
        if op == "setdtype":
            big, frac = cx.t(x["big"]), cx.t(x["frac"])
            lim = INFO[t1]
            fractional = z3.And(z3.BoolVal(t0[0] == "f"), frac != 0)
            if t1 == t0 or can_cast(t0, t1):
                must_fail = z3.BoolVal(False)
            elif t1[0] == "i":
                must_fail = z3.Or(fractional, big > int(lim), z3.Or([qq > int(lim) for qq in q] + [ff > int(lim) for ff in f[1:]]))
            else:
                val0 = z3.ToReal(big) + (z3.ToReal(frac) / 4 if t0[0] == "f" else 0)
                must_fail = val0 > z3.RealVal(str(int(lim)))
            if raised is not None:
                yield "dtype_change_refused_only_when_lossy", z3.And(must_fail, z3.BoolVal(raised.name == "ValueError"))
                a, b = obs["before"], obs["after_src"]
                yield "nothing_changes_on_refusal", z3.And([cx.eq(u, cx.t(w)) for u, w in zip(flat(b["freq"]) + flat(b["err2"]), flat(a["freq"]) + flat(a["err2"]))] + [z3.BoolVal(a["dtype"] == b["dtype"] == b["fdtype"] == b["edtype"])])
                return
            yield "lossy_dtype_change_refused", z3.Not(must_fail)
            r = obs["res"]
            yield "dtype_is_requested", r["dtype"] == t1 == r["fdtype"] == r["edtype"]
            a = obs["before"]
            yield "values_preserved", z3.And([cx.eq(u, cx.t(w)) for u, w in zip(flat(r["freq"]) + flat(r["err2"]), flat(a["freq"]) + flat(a["err2"]))])
            return
        # int histogram with float weights: coerced to float (never truncated); all other ops succeed
        yield "no_exception", raised is None
        if raised is not None:
            return
        r = obs["res"]
        yield "dtype_consistent", r["dtype"] == r["fdtype"] == r["edtype"]
        if op == "fill_int":
            exp_dt, ref = promote(t0, "int64"), [f[0] + z3.If(in0, n, 0), f[1] + z3.If(in1, n, 0)]
        elif op == "fill_float":
            exp_dt, ref = promote(t0, "float64"), [f[0] + z3.If(in0, k4, 0), f[1] + z3.If(in1, k4, 0)]
        elif op == "fill_npf32":
            exp_dt, ref = promote(t0, "float32"), [f[0] + z3.If(in0, k4, 0), f[1] + z3.If(in1, k4, 0)]
        elif op == "fill_npi64":
            exp_dt, ref = promote(t0, "int64"), [f[0] + z3.If(in0, n, 0), f[1] + z3.If(in1, n, 0)]
        elif op == "fill_float_out":
            exp_dt, ref = promote(t0, "float64"), [f[0], f[1]]
            if not p["nd"]:
                yield "float_weight_recorded_as_missed", z3.And(cx.eq(r["under"], z3.If(v < 0, k4, 0)), cx.eq(r["over"], z3.If(v > 2, k4, 0)))
        elif op == "filln_none":
            exp_dt, ref = t0, [f[0] + z3.If(in0, 1, 0), f[1] + z3.If(in1, 1, 0)]
        elif op == "filln_int":
            exp_dt, ref = promote(t0, t1), [f[0] + z3.If(in0, n, 0), f[1] + z3.If(in1, n, 0)]
        elif op == "filln_float":
            exp_dt, ref = promote(t0, t1), [f[0] + z3.If(in0, k4, 0), f[1] + z3.If(in1, k4, 0)]
        elif op in ("add", "iadd"):
            exp_dt, ref = promote(t0, t1), [f[0] + g[0], f[1] + g[1]]
        elif op in ("sub", "isub"):
            exp_dt, ref = promote(t0, t1), [f[0] - g[0], f[1] - g[1]]
        elif op == "mul_int":
            exp_dt, ref = promote(t0, "int64"), [f[0] * n, f[1] * n]
        elif op in ("mul_float", "imul_float"):
            exp_dt, ref = promote(t0, "float64"), [f[0] * k4, f[1] * k4]
        elif op in ("div", "idiv"):
            exp_dt, ref = promote(t0, "float64"), [z3.ToReal(f[0]) / z3.ToReal(n), z3.ToReal(f[1]) / z3.ToReal(n)]
        elif op == "accumulate":
            exp_dt, ref = (promote(t0, "int64") if t0[0] == "i" else t0), [f[0], f[0] + f[1]]
        elif op in ("normalize", "partial"):
            exp_dt, ref = promote(t0, "float64"), [z3.ToReal(f[0]) / z3.ToReal(f[0] + f[1]), z3.ToReal(f[1]) / z3.ToReal(f[0] + f[1])]
        else:
            exp_dt, ref = t0, [f[0] + f[1]]
        yield "dtype_is_promotion", r["dtype"] == exp_dt
        if p["nd"] and op in ("fill_float", "filln_float", "fill_int"):
            # second coordinate 0.5 lies in the single bin of axis 1
            pass
        got = flat(r["freq"])
        yield "values_exact", z3.And([cx.eq(u, w) for u, w in zip(got, ref)] + [z3.BoolVal(len(got) == len(ref))])
        if t0[0] == "i" and exp_dt[0] == "i":
            yield "integer_counting_stays_integer", r["dtype"].startswith("int")


@register
class C13Construct(Harness):
    prop = "C13"
    group = "construct"
    bounds_doc = "h1 / h (N=1) with weights none / int / float and dtype None or each supported dtype: inferred dtype, refusal of integer dtype with float weights, values not truncated"

    def instances(self, tier):
        for wk in ("none", "int", "float", "float32", "float16"):
            for dt in [None] + DTYPES:
                if wk in ("float32", "float16") and dt not in (None, "int64", "int16", "float64"):
                    continue
                for nd in (False, True):
                    if tier == "quick" and nd and dt not in (None, "int32", "float32"):
                        continue
                    yield f"cons-{'nd' if nd else '1d'}-w{wk}-d{dt}", dict(weights=wk, dtype=dt, nd=nd)
        # direct construction with explicit squared errors held in an array of another element type
        for t0, t1 in (("float32", "int64"), ("float32", "float64"), ("int16", "int64"), ("float16", "float64"), ("int64", "int32")):
            for nd in (False, True):
                yield f"direct-{'nd' if nd else '1d'}-{t0}-e{t1}", dict(weights="direct", dtype=t0, edtype=t1, nd=nd)

    def declare(self, cx, p):
        x = {"v": cx.real("v"), "k": cx.int("k", 1, 8), "n": cx.int("n", 0, 5)}
        if cx.sym:
            cx.assume(x["v"] >= 0, x["v"] < 1)
        return x

    def drive(self, E, p, x):
        np = E.np
        fac = E.mod("physt._facade")
        kw = {}
        if p["weights"] == "int":
            kw["weights"] = np.asarray([x["n"]], dtype=int)
        elif p["weights"].startswith("float"):
            kw["weights"] = np.asarray([x["k"] / 4.0], dtype=(float if p["weights"] == "float" else p["weights"]))
        if p["weights"] == "direct":
            if p["nd"]:
                H2 = E.mod("physt.histogram_nd").Histogram2D
                r = E.attempt(H2, [np.asarray([0.0, 1.0]), np.asarray([0.0, 1.0])], np.asarray([[x["n"]]], dtype=p["dtype"]), errors2=np.asarray([[x["k"]]], dtype=p["edtype"]))
                return {"res": {"raised": r}} if isinstance(r, Raised) else {"res": snapnd(E, r)}
            H1 = E.mod("physt.histogram1d").Histogram1D
            r = E.attempt(H1, np.asarray([0.0, 1.0]), np.asarray([x["n"]], dtype=p["dtype"]), np.asarray([x["k"]], dtype=p["edtype"]))
            return {"res": {"raised": r}} if isinstance(r, Raised) else {"res": snap1d(E, r)}
        if p["dtype"]:
            kw["dtype"] = p["dtype"]
        if p["nd"]:
            r = E.attempt(fac.h, np.asarray([[x["v"], x["v"]]], dtype=float), [np.asarray([0.0, 1.0]), np.asarray([0.0, 1.0])], **kw)
            return {"res": {"raised": r}} if isinstance(r, Raised) else {"res": snapnd(E, r)}
        r = E.attempt(fac.h1, np.asarray([x["v"]], dtype=float), np.asarray([0.0, 1.0]), **kw)
        return {"res": {"raised": r}} if isinstance(r, Raised) else {"res": snap1d(E, r)}

    def oracle(self, cx, p, x, obs):
        yield "no_harness_exception", obs.get("raised") is None
        if obs.get("raised") is not None:
            return
        r = obs["res"]
        dt, wk = p["dtype"], p["weights"]
        if dt and dt[0] == "i" and wk.startswith("float"):
            yield "int_dtype_float_weights_refused", "raised" in r and r["raised"].name == "ValueError"
            return
        yield "no_exception", "raised" not in r
        if "raised" in r:
            return
        if wk == "direct":
            yield "dtype", r["dtype"] == dt == r["fdtype"] == r["edtype"]
            val = r["freq"][0][0] if p["nd"] else r["freq"][0]
            err = r["err2"][0][0] if p["nd"] else r["err2"][0]
            yield "values_kept", z3.And(cx.eq(val, cx.t(x["n"])), cx.eq(err, cx.t(x["k"])))
            return
        exp = dt or ({"float": "float64", "float32": "float32", "float16": "float16"}.get(wk, "int64"))
        yield "dtype", r["dtype"] == exp == r["fdtype"] == r["edtype"]
        ref = {"none": z3.IntVal(1), "int": cx.t(x["n"])}.get(wk, z3.ToReal(cx.t(x["k"])) / 4)
        val = r["freq"][0][0] if p["nd"] else r["freq"][0]
        yield "value_not_truncated", cx.eq(val, ref)


@register
class C13AdaptiveAdd(Harness):
    prop = "C13"
    group = "adaptive_add"
    bounds_doc = "adaptive fixed-width 1D histograms (width 1, 2 bins) of dtype T0 and T1 whose bin ranges are offset by a symbolic d in [-3, 3] (d != 0: the bin-adapting branch of addition), + and +=; contents symbolic integers in [0, 50], the first content of a float right operand is a symbolic multiple of 1/4"

    def instances(self, tier):
        for t0, t1 in itertools.product(DTYPES, DTYPES):
            if tier == "quick" and (t0 in ("int32", "float16") or t1 in ("int32", "float16")):
                continue
            for op in ("add", "iadd"):
                if tier == "quick" and op == "add" and t0 != "int64":
                    continue
                yield f"adapt-{op}-{t0}-{t1}", dict(t0=t0, t1=t1, op=op)

    def declare(self, cx, p):
        return {"f": cx.ints("f", 2, 0, 50), "g": cx.ints("g", 2, 0, 50), "k": cx.int("k", 1, 8), "d": cx.pyint("d", -3, 3)}

    def drive(self, E, p, x):
        np = E.np
        H1 = E.mod("physt.histogram1d").Histogram1D
        FWB = E.mod("physt.binnings").FixedWidthBinning
        t0, t1 = p["t0"], p["t1"]
        gv = [x["k"] / 4.0, x["g"][1]] if t1[0] == "f" else list(x["g"])
        h = H1(FWB(bin_width=1.0, bin_count=2, bin_times_min=0, adaptive=True), np.asarray(x["f"], dtype=t0))
        g = H1(FWB(bin_width=1.0, bin_count=2, bin_times_min=x["d"], adaptive=True), np.asarray(gv, dtype=t1))

        def run():
            if p["op"] == "add":
                return h + g
            r = h
            r += g
            return r

        r = E.attempt(run)
        if isinstance(r, Raised):
            return {"op_raised": r}
        return {"res": snap1d(E, r), "right_after": snap1d(E, g), "missed_dtype": str(r._missed.dtype)}

    def oracle(self, cx, p, x, obs):
        yield "no_harness_exception", obs.get("raised") is None
        if obs.get("raised") is not None:
            return
        yield "no_exception", obs.get("op_raised") is None
        if obs.get("op_raised") is not None:
            return
        t0, t1 = p["t0"], p["t1"]
        d = cx.concrete_int(x["d"])
        r = obs["res"]
        exp = promote(t0, t1)
        yield "dtype_consistent", r["dtype"] == r["fdtype"] == r["edtype"]
        yield "dtype_is_promotion", r["dtype"] == exp
        yield "missed_dtype", obs["missed_dtype"] == r["dtype"]
        f = [z3.ToReal(cx.t(i)) for i in x["f"]]
        g = [z3.ToReal(cx.t(x["k"])) / 4 if t1[0] == "f" else z3.ToReal(cx.t(x["g"][0])), z3.ToReal(cx.t(x["g"][1]))]
        lo, hi = min(0, d), max(2, d + 2)
        yield "bin_range", len(r["freq"]) == hi - lo and len(r["bins"]) == hi - lo
        if len(r["freq"]) != hi - lo:
            return
        for j, k in enumerate(range(lo, hi)):
            ref = (f[k] if 0 <= k < 2 else 0) + (g[k - d] if d <= k < d + 2 else 0)
            yield f"content[{j}]", cx.eq(r["freq"][j], ref)
            yield f"bin[{j}]", z3.And(cx.t(r["bins"][j][0]) == k, cx.t(r["bins"][j][1]) == k + 1)
        ra = obs["right_after"]
        yield "right_operand_dtype_untouched", ra["dtype"] == t1 == ra["fdtype"] == ra["edtype"]
