"""symx.symnp - the numpy model.  `install()` registers it as `sys.modules['numpy']`."""
from __future__ import annotations

import sys
import types

from .arrays import *  # noqa: F401,F403
from .arrays import AxisError, UFuncTypeError, _bshape, array, asarray, broadcast_to, dtype, ndarray, newaxis  # noqa: F401
from .npfuncs import *  # noqa: F401,F403
from .npfuncs import (abs, all, amax, amin, any, around, max, min, prod, round, round_, sum, iinfo, finfo,  # noqa: F401,A004
                      nan, inf, pi, e)
from .scalars import (bool_, double, float16, float32, float64, float128, float_, floating, generic, inexact, int16,  # noqa: F401
                      int32, int64, int_, integer, intp, longdouble, number, signedinteger, uint16, uint32, uint64, unsignedinteger)

__version__ = "2.5.3"  # the numpy this model is validated against
NaN = NAN = nan
Inf = Infinity = inf
errstate = None


class _Errstate:
    def __init__(self, **kw):
        pass

    def __enter__(self):
        return self

    def __exit__(self, *a):
        return False


errstate = _Errstate


def seterr(**kw):
    return {}


class _Exceptions(types.ModuleType):
    pass


def install():
    mod = sys.modules[__name__]
    sys.modules["numpy"] = mod
    typing_mod = types.ModuleType("numpy.typing")
    typing_mod.ArrayLike = object
    typing_mod.DTypeLike = object
    typing_mod.NDArray = object
    sys.modules["numpy.typing"] = typing_mod
    mod.typing = typing_mod
    exc = types.ModuleType("numpy.exceptions")
    exc.AxisError = AxisError
    sys.modules["numpy.exceptions"] = exc
    mod.exceptions = exc
    return mod
