"""symx.api - what a harness sees: worlds (symbolic / concrete), declared inputs, obligations.

A harness is a subclass of `Harness`:
    prop                      property id
    instances(tier)           -> iterable of (name, params)   (enumerated configurations = stated bounds)
    declare(cx, p)            -> dict of inputs (symbolic scalars, lists of them); calls cx.assume(...)
    drive(E, p, x)            -> observables (dict of leaves / nested lists); the SAME code runs in the
                                 symbolic world (numpy model, symbolic x) and in the concrete twin
                                 (real numpy, real physt, float x)
    oracle(cx, p, x, obs)     -> iterable of (label, z3 formula | bool): the reference, from the property text
"""
from __future__ import annotations

import importlib
import math
import sys
from fractions import Fraction

HARNESSES = {}


def register(cls):
    HARNESSES.setdefault(cls.prop, []).append(cls())
    return cls


class Harness:
    prop = "C00"
    group = ""
    # bounds vocabulary shown in the evidence
    bounds_doc = ""
    stubs = ()
    assumptions_doc = ()

    def instances(self, tier):
        return []

    def declare(self, cx, p):
        return {}

    def drive(self, E, p, x):
        raise NotImplementedError

    def oracle(self, cx, p, x, obs):
        return []

    generic_invariants = True

    def invariants(self, cx, p, x, obs):
        """Cross-cutting obligations on every histogram snapshot found in the observables (dicts carrying 'geom', 'bins',
        'edges', 'freq'): the two views of the bin geometry (edge pairs and numpy-style edges, cached separately by the binning
        objects) describe the same bins, and the content array has one entry per bin."""
        if not self.generic_invariants or not isinstance(obs, dict):
            return
        yield from _walk_snapshots(cx, obs, "", dtype_check=not (isinstance(p, dict) and p.get("via_setter")))

    def witness_hints(self, cx, p, x):
        """Optional: lists of z3 constraints tried (in order) when a concrete witness / counterexample is picked,
        to steer the solver to inputs on which exact-real and binary64 arithmetic coincide (e.g. dyadic widths)."""
        return []


def _dims(a):
    d = []
    while isinstance(a, list):
        d.append(len(a))
        if not a:
            break
        a = a[0]
    return d


def _walk_snapshots(cx, node, path, depth=0, dtype_check=True):
    import z3

    if depth > 6:
        return
    if isinstance(node, dict):
        if dtype_check and all(isinstance(node.get(k), str) for k in ("dtype", "fdtype", "edtype")):
            # the dtype a histogram reports is the element type of both of its arrays
            yield f"snapshot_dtype_consistent[{path or 'obs'}]", node["dtype"] == node["fdtype"] == node["edtype"]
        if node.get("geom") in ("1d", "nd") and all(k in node for k in ("bins", "edges", "freq")) and isinstance(node["bins"], list):
            one = node["geom"] == "1d"
            bins = [node["bins"]] if one else node["bins"]
            edges = [node["edges"]] if one else node["edges"]
            fshape = _dims(node["freq"]) if isinstance(node["freq"], list) else None
            if isinstance(edges, list) and len(edges) == len(bins) and fshape is not None:
                for k, (b, e) in enumerate(zip(bins, edges)):
                    if not isinstance(b, list):
                        continue
                    n = len(b)
                    tag = f"{path or 'obs'}:axis{k}"
                    if len(fshape) == len(bins) or (n == 0 and len(fshape) >= 1):
                        yield f"snapshot_bins_match_contents[{tag}]", (fshape[k] if k < len(fshape) else 0) == n
                    if isinstance(e, Raised) or not isinstance(e, list) or n == 0:
                        continue
                    yield f"snapshot_edge_count[{tag}]", len(e) == n + 1
                    if len(e) == n + 1 and all(isinstance(r, list) and len(r) == 2 for r in b):
                        yield f"snapshot_edges_match_bins[{tag}]", z3.And([cx.t(e[0]) == cx.t(b[0][0])] + [cx.t(e[j + 1]) == cx.t(b[j][1]) for j in range(n)])
        for k, v in node.items():
            if isinstance(v, (dict, list)) and not str(k).startswith("_"):
                yield from _walk_snapshots(cx, v, f"{path}.{k}" if path else str(k), depth + 1, dtype_check)
    elif isinstance(node, list) and node and isinstance(node[0], dict):
        for i, v in enumerate(node):
            yield from _walk_snapshots(cx, v, f"{path}[{i}]", depth + 1, dtype_check)


def exc_name(e):
    """Canonical exception name: first builtin class in the MRO (numpy-specific subclasses collapse)."""
    for c in type(e).__mro__:
        if c.__module__ == "builtins":
            return c.__name__
    return type(e).__name__


class ShapeMismatch(Exception):
    """Raised by oracle helpers when an observable does not have the shape the reference indexes it with (e.g. a content array that lost a
    dimension).  The runner turns it into a failing obligation, so that the malformed result is replayed and reported like any other violation."""


class Raised:
    """Observable standing for 'this step raised <name>'."""

    def __init__(self, name, msg=""):
        self.name = name
        self.msg = msg

    def __repr__(self):
        return f"Raised({self.name})"


class World:
    sym = False

    def mod(self, name):
        return importlib.import_module(name)

    def attempt(self, fn, *a, **k):
        """Run fn; exceptions of the code under test become observables."""
        try:
            return fn(*a, **k)
        except Exception as e:  # engine control flow derives from BaseException
            return Raised(exc_name(e), str(e)[:200])


class ConcreteWorld(World):
    sym = False

    def __init__(self):
        import numpy

        self.np = numpy

    def prune(self):
        raise RuntimeError("infeasible choice reached in the concrete twin")

    def canon(self, v):
        np = self.np
        if isinstance(v, Raised):
            return {"raised": v.name}
        if isinstance(v, np.ndarray):
            return self.canon(v.tolist())
        if isinstance(v, np.generic):
            if isinstance(v, np.floating):
                return self.canon(float(v))
            if isinstance(v, np.integer):
                return int(v)
            if isinstance(v, np.bool_):
                return bool(v)
            return self.canon(v.item())
        if isinstance(v, np.dtype):
            return str(v)
        if isinstance(v, bool) or v is None or isinstance(v, str):
            return v
        if isinstance(v, int):
            return v
        if isinstance(v, float):
            if v != v:
                return "nan"
            if v in (math.inf, -math.inf):
                return "inf" if v > 0 else "-inf"
            return v
        if isinstance(v, (list, tuple)):
            return [self.canon(i) for i in v]
        if isinstance(v, dict):
            return {str(k): self.canon(i) for k, i in v.items()}
        if isinstance(v, type):
            return v.__name__
        return f"<{type(v).__name__}>"

    def value(self, spec):
        """JSON input value -> python number."""
        if spec == "nan":
            return math.nan
        if isinstance(spec, list):
            return [self.value(s) for s in spec]
        return spec


class SymbolicWorld(World):
    sym = True

    def __init__(self):
        from . import symnp

        self.np = symnp

    def prune(self):
        """Abandon the current path (an infeasible combination of enumerated choices)."""
        from .core import PathAbort

        raise PathAbort()

    def mod(self, name):
        return sys.modules[name] if name in sys.modules else importlib.import_module(name)


def frac_to_json(fr: Fraction, is_int):
    if is_int:
        return int(fr)
    return float(fr)
