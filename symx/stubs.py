"""symx.stubs - environment stubs (each one is part of the claim; listed in the evidence)."""
from __future__ import annotations

from . import scalars as S


class JsonStub:
    """Tree-level json: loads(dumps(t)) == t with tuples -> lists, keys -> str, non-JSON leaves -> TypeError.

    Symbolic leaves pass through unchanged (numbers are numbers in JSON; the textual float formatting of the stdlib,
    i.e. repr round trip of binary64, is outside the claim)."""

    def __init__(self):
        self.store = {}

    def _norm(self, t):
        if isinstance(t, dict):
            out = {}
            for k, v in t.items():
                if isinstance(k, (str, int, float, bool)) or k is None:
                    out[str(k) if not isinstance(k, bool) else str(k).lower()] = self._norm(v)
                else:
                    raise TypeError(f"keys must be str, int, float, bool or None, not {type(k).__name__}")
            return out
        if isinstance(t, (list, tuple)):
            return [self._norm(v) for v in t]
        if isinstance(t, (str, int, float, bool)) or t is None:
            return t
        if isinstance(t, S.generic):
            if type(t)._py or t._kind == "b":
                return t
            raise TypeError(f"Object of type {type(t)._name} is not JSON serializable")
        raise TypeError(f"Object of type {type(t).__name__} is not JSON serializable")

    MORE = "\n<further lines of the indented document>"

    def dumps(self, tree, **kw):
        key = f"<json-document-{len(self.store)}>"
        self.store[key] = self._norm(tree)
        # with indent= a non-empty document spans several lines: its first line alone is not a JSON document
        if kw.get("indent") is not None and isinstance(tree, (dict, list, tuple)) and len(tree):
            return key + self.MORE
        return key

    def _copy(self, t):
        if isinstance(t, dict):
            return {k: self._copy(v) for k, v in t.items()}
        if isinstance(t, list):
            return [self._copy(v) for v in t]
        return t

    def loads(self, text, **kw):
        if isinstance(text, str) and text.endswith(self.MORE) and text[: -len(self.MORE)] in self.store:
            text = text[: -len(self.MORE)]
        if text not in self.store:
            import json

            if isinstance(text, str) and text.rstrip("\n") in self.store:
                raise json.JSONDecodeError("Expecting property name enclosed in double quotes (truncated multi-line document)", text, len(text))
            return json.loads(text)
        return self._copy(self.store[text])

    def tree(self, text):
        if isinstance(text, str) and text.endswith(self.MORE):
            text = text[: -len(self.MORE)]
        return self.store[text]


class MemoryFiles:
    """open() stub for save_json(path) / load_json(path): a write-then-read returns the text written."""

    def __init__(self):
        self.files = {}

    def open(self, path, mode="r", encoding=None, **kw):
        fs = self

        class _F:
            def __enter__(self_f):
                return self_f

            def __exit__(self_f, *a):
                return False

            def write(self_f, text):
                fs.files[str(path)] = fs.files.get(str(path), "") + text if "a" in mode else text

            def read(self_f):
                if str(path) not in fs.files:
                    raise FileNotFoundError(path)
                return fs.files[str(path)]

            def readline(self_f):
                text = self_f.read()
                i = text.find("\n")
                return text if i < 0 else text[: i + 1]

            def readlines(self_f):
                return self_f.read().splitlines(keepends=True)

        if "r" in mode and str(path) not in self.files:
            raise FileNotFoundError(path)
        return _F()
