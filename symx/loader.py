"""symx.loader - import the real physt modules from /repo/src under the numpy model.

No source rewriting: the normal import system reads /repo/src/physt/*.py as they are on disk now.
The package object `physt` is a bare module whose __path__ is /repo/src/physt (so that
physt/__init__.py, which pulls pandas/dask/..., is not run).  After import a few builtins are
shadowed in each physt module's globals (module globals win over builtins).
"""
from __future__ import annotations

import importlib
import os
import sys
import types

REPO_SRC = os.environ.get("VERIF_REPO_SRC", "/repo/src")

CORE_MODULES = [
    "physt._bin_utils", "physt._util", "physt.config", "physt.statistics", "physt.binnings", "physt._construction",
    "physt.histogram_base", "physt.histogram1d", "physt.histogram_nd", "physt.histogram_collection", "physt.types",
    "physt.special_histograms", "physt._facade", "physt.io.version", "physt.io.util", "physt.io.json", "physt.io",
    "physt.plotting.common", "physt.plotting.ascii", "physt.plotting", "physt.plotting.matplotlib", "physt.plotting.plotly", "physt.compat.pandas", "physt.compat.dask", "physt.compat.xarray",
]

_loaded = False
encoded_functions = set()


def _read_version():
    ns = {}
    with open(os.path.join(REPO_SRC, "physt", "version.py")) as f:
        exec(f.read(), ns)
    return ns["__version__"]


def load_symbolic(extra=()):
    """Install the numpy model and import physt's modules.  Idempotent."""
    global _loaded
    from . import stubs, symnp
    from .scalars import SHADOWS

    if not _loaded:
        assert "numpy" not in sys.modules or sys.modules["numpy"] is symnp, "real numpy already imported"
        symnp.install()
        for blocked in ("astropy", "polars", "folium", "xtermcolor", "scipy", "seaborn"):
            sys.modules.setdefault(blocked, None)
        from . import stubpkgs
        from .stubpkgs import dask_xarray_stub, pandas_stub

        stubpkgs.install()
        pandas_stub.install()
        dask_xarray_stub.install()
        pkg = types.ModuleType("physt")
        pkg.__path__ = [os.path.join(REPO_SRC, "physt")]
        pkg.__version__ = _read_version()
        sys.modules["physt"] = pkg
        _start_monitor()
        _loaded = True
    for name in list(CORE_MODULES) + list(extra):
        importlib.import_module(name)
    for name, m in list(sys.modules.items()):
        if m is not None and name.startswith("physt.") and not getattr(m, "_symx_shadowed", False):
            for k, v in SHADOWS.items():
                m.__dict__[k] = v
            m._symx_shadowed = True
    pj = sys.modules.get("physt.io.json")
    if pj is not None and not isinstance(pj.__dict__.get("json"), stubs.JsonStub):
        pj.__dict__["json"] = stubs.JsonStub()
        pj.__dict__["open"] = stubs.MemoryFiles().open
    return sys.modules["physt"]


def load_concrete():
    """Real numpy, real physt from the working tree (used by the replay twin)."""
    if REPO_SRC not in sys.path:
        sys.path.insert(0, REPO_SRC)
    import physt  # noqa: F401

    for name in CORE_MODULES:
        importlib.import_module(name)
    return sys.modules["physt"]


def _start_monitor():
    mon = getattr(sys, "monitoring", None)
    if mon is None:
        return
    tool = mon.COVERAGE_ID
    try:
        mon.use_tool_id(tool, "symx")
    except ValueError:
        return
    prefix = os.path.join(REPO_SRC, "physt")

    def on_start(code, offset):
        fn = code.co_filename
        if fn.startswith(prefix):
            encoded_functions.add(f"{os.path.relpath(fn, REPO_SRC)}:{code.co_qualname}")
        return mon.DISABLE

    mon.register_callback(tool, mon.events.PY_START, on_start)
    mon.set_events(tool, mon.events.PY_START)
