"""symx.npfuncs - module-level numpy functions of the model."""
from __future__ import annotations

import builtins
import itertools
import math

import z3

from . import core
from . import scalars as S
from .arrays import (AxisError, UFuncTypeError, _bshape, _cstrides, _norm_axis, _one, _prod, _zero, array, asarray,
                     broadcast_to, dtype, ndarray, _as_index)
from .core import ShimUnsupported
from .scalars import _mk, cast_scalar, generic, wrap

nan = S.NAN
inf = S.INF
pi = math.pi
e = math.e
newaxis = None


# ----------------------------------------------------------------------------- dtype machinery
def issubdtype(a, b):
    ca = dtype(a).type if not (isinstance(a, type) and issubclass(a, generic) and a not in S.NP_TYPES) else a
    if isinstance(b, type) and issubclass(b, generic):
        return issubclass(ca, b)
    if b in (int, builtins.int, S.py_int):
        return issubclass(ca, S.int64)      # numpy: the builtins stand for their default dtype (int64 / float64), not for the abstract kind
    if b in (float, builtins.float, S.py_float):
        return issubclass(ca, S.float64)
    return issubclass(ca, dtype(b).type)


def promote_types(a, b):
    return dtype(S.promote_cls(dtype(a).type, dtype(b).type))


def result_type(*args):
    """numpy 2 (NEP 50): python int / float / bool scalars are weak - they only decide the *kind* of the result."""
    cls, weak = None, []
    for a in args:
        if type(a) in (int, float, bool) or (isinstance(a, generic) and type(a)._py):
            weak.append("f" if (type(a) is float or (isinstance(a, generic) and a._kind == "f")) else ("b" if type(a) is bool else "i"))
            continue
        c = a.dtype.type if (hasattr(a, "dtype") and not isinstance(a, type)) else dtype(a).type
        cls = c if cls is None else S.promote_cls(cls, c)
    if cls is None:
        return dtype(float if "f" in weak else (int if "i" in weak else bool))
    if "f" in weak and cls._kind in "bi":
        cls = S.float64
    elif "i" in weak and cls._kind == "b":
        cls = S.int64
    return dtype(cls)


def can_cast(a, b, casting="safe"):
    a = a.dtype if hasattr(a, "dtype") and not isinstance(a, dtype) else dtype(a)
    b = dtype(b)
    if casting == "unsafe":
        return True
    if casting in ("no", "equiv"):
        return a == b
    if S.promote_cls(a.type, b.type) is b.type:
        return True
    if casting == "same_kind":
        kinds = {"b": 0, "u": 1, "i": 2, "f": 3, "c": 4}
        if a.kind in kinds and b.kind in kinds:
            return kinds[a.kind] <= kinds[b.kind]
        return False
    if casting != "safe":
        raise ValueError(f"casting must be one of 'no', 'equiv', 'safe', 'same_kind', or 'unsafe' (got {casting!r})")
    return False


class iinfo:
    def __init__(self, dt):
        d = dtype(dt)
        if d.kind not in "iu":
            raise ValueError(f"Invalid integer data type '{d.kind}'.")
        self.bits = int(d.name.lstrip("uint"))
        if d.kind == "u":
            self.min, self.max = 0, 2 ** self.bits - 1
        else:
            self.min, self.max = -(2 ** (self.bits - 1)), 2 ** (self.bits - 1) - 1
        self.dtype = d


class finfo:
    _MAX = {"float16": 65504.0, "float32": 3.4028234663852886e38, "float64": 1.7976931348623157e308}
    _EPS = {"float16": 0.0009765625, "float32": 1.1920929e-07, "float64": 2.220446049250313e-16, "float128": 1.084202172485504434e-19}

    def __init__(self, dt):
        d = dtype(dt)
        if d.kind != "f":
            raise ValueError(f"data type {d!r} not inexact")
        self.dtype = d
        if d.name == "float128":
            # larger than any binary64; kept as an exact rational bound so symbolic comparisons stay finite
            from fractions import Fraction

            big = _mk(S.float128, z3.RealVal(2) ** 16383 if False else S.lift_num(Fraction(2) ** 16383))
            self.max, self.min = big, -big
        else:
            self.max = self._MAX[d.name]
            self.min = -self.max
        self.eps = self._EPS[d.name]


# ----------------------------------------------------------------------------- creation
def _shape_item(s):
    try:
        return _as_index(s)
    except IndexError:
        # numpy: a dimension that is not an integer is a TypeError ("'float' object cannot be interpreted as an integer")
        raise TypeError(f"'{type(s).__name__}' object cannot be interpreted as an integer") from None


def _shape(shape):
    if isinstance(shape, (list, tuple)):
        return tuple(_shape_item(s) for s in shape)
    return (_shape_item(shape),)


def zeros(shape, dtype=float, **kw):
    dt = globals()["dtype"](dtype)
    shape = _shape(shape)
    return ndarray._from_list([_zero(dt.type)] * _prod(shape), shape, dt)


def ones(shape, dtype=float, **kw):
    dt = globals()["dtype"](dtype)
    shape = _shape(shape)
    return ndarray._from_list([_one(dt.type)] * _prod(shape), shape, dt)


def empty(shape, dtype=float, **kw):
    return zeros(shape, dtype)


def full(shape, fill_value, dtype=None):
    a = zeros(shape, dtype or asarray(fill_value).dtype)
    a[...] = fill_value
    return a


def zeros_like(a, dtype=None, **kw):
    a = asarray(a)
    return zeros(a.shape, dtype or a.dtype)


def ones_like(a, dtype=None, **kw):
    a = asarray(a)
    return ones(a.shape, dtype or a.dtype)


def empty_like(a, dtype=None, **kw):
    return zeros_like(a, dtype)


def full_like(a, fill_value, dtype=None):
    a = asarray(a)
    return full(a.shape, fill_value, dtype or a.dtype)


def copy(a, order="K", **kw):
    return asarray(a).copy(order=order)


def shares_memory(a, b, max_work=None):
    """True iff the two arrays are views of the same buffer with at least one common element."""
    a, b = asarray(a), asarray(b)
    if a._buf is not b._buf or a.size == 0 or b.size == 0:
        return False
    return builtins.bool(set(a._offsets()) & set(b._offsets())) if hasattr(a, "_offsets") else True


may_share_memory = shares_memory


def nan_to_num(a, copy=True, nan=0.0, posinf=None, neginf=None):
    """NaN -> `nan` (default 0); infinities -> the largest finite values of the type (or posinf / neginf)."""
    arr = asarray(a)
    if arr.dtype.kind != "f":
        return arr.copy() if copy else arr
    big = finfo(arr.dtype).max
    hi = big if posinf is None else posinf
    lo = -big if neginf is None else neginf
    out = where(isnan(arr), nan, arr)
    out = where(isinf(out) & (out > 0), hi, out)
    out = where(isinf(out) & (out < 0), lo, out)
    out = out.astype(arr.dtype)
    if arr.ndim == 0:
        return out[()] if hasattr(out, "__getitem__") else out
    return out


def asfortranarray(a, dtype=None):
    a = asarray(a, dtype)
    return a if a.ndim < 2 else a.copy(order="F")


def ascontiguousarray(a, dtype=None):
    return asarray(a, dtype).copy(order="C")


def arange(start, stop=None, step=1, dtype=None):
    if stop is None:
        start, stop = 0, start
    start, stop, step = (x.__index__() if getattr(type(x), "_fp", False) else x for x in (start, stop, step))
    vals = [wrap(x) for x in (start, stop, step)]
    if builtins.all(v._kind == "i" for v in vals):
        s0, s1, st = (_as_index(x) if isinstance(x, generic) else x for x in (start, stop, step))
        items = list(range(s0, s1, st))
        a = ndarray._from_list([_mk(S.int64, i) for i in items], (len(items),), globals()["dtype"](int))
    else:
        if builtins.any(v.sym for v in vals):
            raise ShimUnsupported("arange with symbolic float arguments")
        n = builtins.max(0, math.ceil((vals[1].v - vals[0].v) / vals[2].v))
        items = [vals[0].v + i * vals[2].v for i in range(n)]
        a = ndarray._from_list([_mk(S.float64, float(i)) for i in items], (n,), globals()["dtype"](float))
    if dtype is not None:
        a = a.astype(dtype)
    return a


def linspace(start, stop, num=50, endpoint=True, retstep=False, dtype=None, **kw):
    num = _as_index(num)
    if num < 0:
        raise ValueError(f"Number of samples, {num}, must be non-negative.")
    start, stop = cast_scalar(start, S.float64), cast_scalar(stop, S.float64)
    div = (num - 1) if endpoint else num
    items = []
    if num:
        if div > 0:
            step = (stop - start) / div
            items = [cast_scalar(start + step * i, S.float64) for i in range(num)]
            if endpoint and num > 1:
                items[-1] = stop
        else:
            items = [start]
    a = ndarray._from_list(items, (num,), globals()["dtype"](float))
    if dtype is not None:
        a = a.astype(dtype)
    return a


def meshgrid(*xi, indexing="xy", **kw):
    arrs = [asarray(x).flatten() for x in xi]
    n = len(arrs)
    shape = [a.size for a in arrs]
    sparse = kw.pop("sparse", False)
    kw.pop("copy", None)
    if kw:
        raise TypeError(f"meshgrid() got an unexpected keyword argument '{list(kw)[0]}'")
    out = []
    if sparse:
        # open grids: every output keeps only its own axis, all other dimensions have length 1
        for i, a in enumerate(arrs):
            shp = [1] * n
            shp[i] = a.size
            v = a.reshape(shp)
            if indexing == "xy" and n >= 2:
                v = v.transpose([1, 0] + list(range(2, n)))
            out.append(v.copy())
        return tuple(out)
    for i, a in enumerate(arrs):
        st = [0] * n
        st[i] = 1
        v = ndarray._mk(a._buf, shape, a.dtype, a._off, st)
        if indexing == "xy" and n >= 2:
            v = v.transpose([1, 0] + list(range(2, n)))
        out.append(v.copy())
    return tuple(out)


def ix_(*args):
    out, n = [], len(args)
    for i, a in enumerate(args):
        was_array = isinstance(a, ndarray)
        a = asarray(a)
        if a.ndim != 1:
            raise ValueError("Cross index must be 1 dimensional")
        if a.size == 0 and not was_array:
            # numpy types empty *sequences* as intp; an empty float ndarray stays float (and is then refused as an index)
            a = a.astype(int)
        if a.dtype.kind == "b":
            raise ShimUnsupported("ix_ with boolean arrays")
        shape = [1] * n
        shape[i] = a.size
        out.append(a.reshape(shape))
    return tuple(out)


def atleast_1d(*arys):
    res = []
    for a in arys:
        a = asarray(a)
        res.append(a.reshape((1,)) if a.ndim == 0 else a)
    return res[0] if len(res) == 1 else tuple(res)


def squeeze(a, axis=None):
    return asarray(a).squeeze(axis)


def fromiter(iterable, dtype, count=-1):
    """1-D array from an iterable of scalars; an item that is itself a sequence is refused as numpy does."""
    dt = globals()["dtype"](dtype)
    items = []
    for k, it in enumerate(iterable):
        if count >= 0 and k >= count:
            break
        if isinstance(it, (list, tuple)) or (isinstance(it, ndarray) and it.ndim > 0):
            raise ValueError("setting an array element with a sequence.")
        items.append(it)
    if count > len(items):
        raise ValueError(f"iterator too short: Expected {count} but iterator had only {len(items)} items.")
    return asarray(items, dtype=dt) if items else zeros(0, dt)


def atleast_2d(*arys):
    res = []
    for a in arys:
        a = asarray(a)
        if a.ndim == 0:
            a = a.reshape((1, 1))
        elif a.ndim == 1:
            a = a[None, :]
        res.append(a)
    return res[0] if len(res) == 1 else tuple(res)


def append(arr, values, axis=None):
    if axis is None:
        return concatenate([asarray(arr).flatten(), asarray(values).flatten()])
    return concatenate([asarray(arr), asarray(values)], axis=axis)


def concatenate(arrs, axis=0, **kw):
    arrs = [asarray(a) for a in arrs]
    if not arrs:
        raise ValueError("need at least one array to concatenate")
    nd = arrs[0].ndim
    if nd == 0:
        raise ValueError("zero-dimensional arrays cannot be concatenated")
    for a in arrs:
        if a.ndim != nd:
            raise ValueError("all the input array dimensions except for the concatenation axis must match exactly, "
                             f"but along dimension 0, the array at index 0 has {nd} dimension(s) and another has {a.ndim}")
    axis = _norm_axis(axis, nd)
    ref = arrs[0].shape
    for a in arrs:
        for i in range(nd):
            if i != axis and a.shape[i] != ref[i]:
                raise ValueError("all the input array dimensions except for the concatenation axis must match exactly")
    cls = arrs[0].dtype.type
    for a in arrs[1:]:
        cls = S.promote_cls(cls, a.dtype.type)
    shape = list(ref)
    shape[axis] = builtins.sum(a.shape[axis] for a in arrs)
    out = ndarray._from_list([_zero(cls)] * _prod(shape), shape, dtype(cls))
    pos = 0
    for a in arrs:
        key = [slice(None)] * nd
        key[axis] = slice(pos, pos + a.shape[axis])
        out[tuple(key)] = a
        pos += a.shape[axis]
    return out


def hstack(arrs):
    arrs = [atleast_1d(a) for a in arrs]
    return concatenate(arrs, 0 if arrs and arrs[0].ndim == 1 else 1)


def vstack(arrs):
    return concatenate([atleast_2d(a) for a in arrs], 0)


def stack(arrs, axis=0):
    arrs = [asarray(a) for a in arrs]
    nd = arrs[0].ndim + 1
    axis = _norm_axis(axis, nd)
    key = [slice(None)] * (nd - 1)
    key.insert(axis, None)
    return concatenate([a[tuple(key)] for a in arrs], axis)


def outer(a, b):
    a, b = asarray(a).flatten(), asarray(b).flatten()
    return a[:, None] * b[None, :]


def dot(a, b):
    a, b = asarray(a), asarray(b)
    if a.ndim == 1 and b.ndim == 1:
        return (a * b).sum()
    raise ShimUnsupported("dot for ndim > 1")


class _Ufunc:
    def __init__(self, name, f):
        self.__name__ = name
        self._f = f

    def __call__(self, a, b):
        return self._f(a, b)

    def outer(self, a, b):
        a, b = asarray(a), asarray(b)
        sa = a.shape + (1,) * b.ndim
        return self._f(a.reshape(sa) if a.ndim else a, b)


multiply = _Ufunc("multiply", lambda a, b: _binary(a, b, lambda x, y: x * y))
add = _Ufunc("add", lambda a, b: _binary(a, b, lambda x, y: x + y))
subtract = _Ufunc("subtract", lambda a, b: _binary(a, b, lambda x, y: x - y))
divide = true_divide = _Ufunc("divide", lambda a, b: _binary(a, b, lambda x, y: x / y))


def _binary(a, b, f):
    if isinstance(a, ndarray) or isinstance(b, ndarray) or isinstance(a, (list, tuple)) or isinstance(b, (list, tuple)):
        return f(asarray(a), asarray(b) if not isinstance(b, (generic, int, float)) else b)
    return f(_np_scalar(a), b)


def _np_scalar(x):
    """Python number -> strong numpy scalar (result of ufuncs on python numbers)."""
    w = wrap(x)
    if w is None:
        raise TypeError(f"unsupported operand {type(x).__name__}")
    if type(w)._py:
        return cast_scalar(w, S.int64 if w._kind == "i" else S.float64)
    return w


# ----------------------------------------------------------------------------- element-wise maths
def _unary(a, f, float_result=True):
    if isinstance(a, (ndarray, list, tuple)):
        a = asarray(a)
        items = [f(x) for x in a._items()]
        cls = type(items[0]) if items else (S.float64 if float_result else a.dtype.type)
        return ndarray._from_list(items, a.shape, dtype(cls))
    return f(_np_scalar(a))


def _to_float(x):
    return x if x._kind == "f" else cast_scalar(x, S.float64)


def floor(a):
    def f(x):
        if getattr(type(x), "_fp", False):
            from . import fp

            return fp.floor(x)
        x = _to_float(x)
        if not x.sym:
            return _mk(type(x), float(math.floor(x.v)) if math.isfinite(x.v) else x.v)
        return _mk(type(x), z3.ToReal(z3.ToInt(x.v)), x.nan)

    return _unary(a, f)


def ceil(a):
    def f(x):
        if getattr(type(x), "_fp", False):
            from . import fp

            return fp.ceil(x)
        x = _to_float(x)
        if not x.sym:
            return _mk(type(x), float(math.ceil(x.v)) if math.isfinite(x.v) else x.v)
        return _mk(type(x), -z3.ToReal(z3.ToInt(-x.v)), x.nan)

    return _unary(a, f)


def rint(a):
    return _unary(a, lambda x: S._round(_to_float(x)))


around = round = round_ = lambda a, decimals=0: _unary(a, lambda x: S._round(x, decimals), False)  # noqa: E731


def abs(a):  # noqa: A001
    if isinstance(a, (ndarray, list, tuple)):
        return asarray(a).__abs__()
    return _np_scalar(a).__abs__()


absolute = fabs = abs


def negative(a):
    return -asarray(a) if isinstance(a, (ndarray, list, tuple)) else -_np_scalar(a)


def isnan(a):
    def f(x):
        if getattr(type(x), "_fp", False):
            return _mk(S.bool_, False)  # NaN excluded by assumption in FP-mode
        if x._kind != "f":
            return _mk(S.bool_, False)
        if x.nan is not None:
            return _mk(S.bool_, x.nan)
        return _mk(S.bool_, (not x.sym) and x.v != x.v)

    r = _unary(a, f, False)
    if isinstance(r, generic) and not r.sym:
        return r.v
    if isinstance(r, ndarray):
        r.dtype = dtype(bool)
    return r


def isfinite(a):
    def f(x):
        if x._kind != "f":
            return _mk(S.bool_, True)
        if x.sym:
            return _mk(S.bool_, z3.Not(x.nan)) if x.nan is not None else _mk(S.bool_, True)
        return _mk(S.bool_, math.isfinite(x.v))

    r = _unary(a, f, False)
    if isinstance(r, generic) and not r.sym:
        return r.v
    if isinstance(r, ndarray):
        r.dtype = dtype(bool)
    return r


def isinf(a):
    def f(x):
        return _mk(S.bool_, (not x.sym) and x._kind == "f" and x.v in (inf, -inf))

    r = _unary(a, f, False)
    if isinstance(r, generic):
        return r.v
    r.dtype = dtype(bool)
    return r


def sqrt(a):
    from . import transcend

    return _unary(a, lambda x: transcend.sqrt(_to_float(x)))


def hypot(a, b):
    from . import transcend

    return _binary(a, b, lambda x, y: _ew2(x, y, transcend.hypot))


def arctan2(a, b):
    from . import transcend

    return _binary(a, b, lambda x, y: _ew2(x, y, transcend.arctan2))


def _ew2(x, y, f):
    if isinstance(x, ndarray) or isinstance(y, ndarray):
        x, y = asarray(x), asarray(y)
        shape = _bshape(x.shape, y.shape)
        items = [f(_to_float(p), _to_float(q)) for p, q in zip(broadcast_to(x, shape)._items(), broadcast_to(y, shape)._items())]
        return ndarray._from_list(items, shape, dtype(float))
    return f(_to_float(_np_scalar(x)), _to_float(_np_scalar(y)))


def _tr(name):
    def g(a):
        from . import transcend

        return _unary(a, lambda x: getattr(transcend, name)(_to_float(x)))

    g.__name__ = name
    return g


cos = _tr("cos")
sin = _tr("sin")
log = _tr("log")
log2 = _tr("log2")
log10 = _tr("log10")
exp = _tr("exp")
arccos = _tr("arccos")
arcsin = _tr("arcsin")
arctan = _tr("arctan")


def power(a, b):
    return _binary(a, b, lambda x, y: x**y)


def square(a):
    return a * a


def sign(a):
    return _unary(a, lambda x: S.ite(x > 0, 1, S.ite(x < 0, -1, 0)), False)


def nextafter(a, b):
    a = wrap(a)
    if a.sym:
        raise ShimUnsupported("nextafter in R-mode")
    return _mk(S.float64, math.nextafter(float(a.v), float(wrap(b).v)))


def where(cond, x=None, y=None):
    if x is None:
        raise ShimUnsupported("where(cond)")
    cond = asarray(cond)
    x, y = asarray(x), asarray(y)
    shape = _bshape(_bshape(cond.shape, x.shape), y.shape)
    items = [wrap(S.ite(c, p, q)) for c, p, q in zip(broadcast_to(cond, shape)._items(), broadcast_to(x, shape)._items(), broadcast_to(y, shape)._items())]
    cls = S.promote_cls(x.dtype.type, y.dtype.type)
    return ndarray._from_list([cast_scalar(i, cls) for i in items], shape, dtype(cls))


def clip(a, lo, hi):
    a = asarray(a)
    items = []
    for x in a._items():
        if lo is not None:
            x = S.ite(x < lo, lo, x)
        if hi is not None:
            x = S.ite(x > hi, hi, x)
        items.append(cast_scalar(wrap(x), a.dtype.type))
    return ndarray._from_list(items, a.shape, a.dtype)


def vectorize(f, **kw):
    def g(a):
        a = asarray(a)
        items = [wrap(f(x)) for x in a._items()]
        return asarray(items).reshape(a.shape) if items else a.copy()

    return g


# ----------------------------------------------------------------------------- reductions / predicates
def sum(a, axis=None, dtype=None, **kw):  # noqa: A001
    return asarray(a).sum(axis, dtype=dtype)


def prod(a, axis=None, **kw):
    return asarray(a).prod(axis)


def cumsum(a, axis=None, dtype=None, **kw):
    return asarray(a).cumsum(axis, dtype=dtype)


def min(a, axis=None, **kw):  # noqa: A001
    return asarray(a).min(axis)


def max(a, axis=None, **kw):  # noqa: A001
    return asarray(a).max(axis)


amin, amax = min, max


def mean(a, axis=None, **kw):
    return asarray(a).mean(axis)


def std(a, axis=None, **kw):
    return asarray(a).std(axis)


def var(a, axis=None, **kw):
    return asarray(a).var(axis)


def any(a, axis=None, **kw):  # noqa: A001
    r = asarray(a).any(axis)
    return r


def all(a, axis=None, **kw):  # noqa: A001
    return asarray(a).all(axis)


def isscalar(x):
    return isinstance(x, (generic, builtins.int, builtins.float, builtins.bool, complex, str, bytes))


def iterable(x):
    try:
        iter(x)
        return True
    except TypeError:
        return False


def ndim(a):
    return asarray(a).ndim


def shape(a):
    return asarray(a).shape


def size(a):
    return asarray(a).size


def diff(a, n=1, axis=-1, prepend=None, append=None):
    a = asarray(a)
    if a.ndim != 1:
        raise ShimUnsupported("diff on ndim != 1")
    if prepend is not None or append is not None:
        parts = ([atleast_1d(asarray(prepend))] if prepend is not None else []) + [a] + ([atleast_1d(asarray(append))] if append is not None else [])
        a = concatenate(parts)
    if a.size == 0:
        return a.copy()
    return a[1:] - a[:-1]


def isclose(a, b, rtol=1e-5, atol=1e-8, equal_nan=False):
    a0, b0 = a, b
    a, b = asarray(a), asarray(b)
    shp = _bshape(a.shape, b.shape)
    items = []
    for x, y in zip(broadcast_to(a, shp)._items(), broadcast_to(b, shp)._items()):
        items.append(_isclose1(x, y, rtol, atol, equal_nan))
    r = ndarray._from_list([i if isinstance(i, generic) else _mk(S.bool_, i) for i in items], shp, dtype(bool))
    if not shp:
        return items[0]
    return r


def _isclose1(x, y, rtol, atol, equal_nan):
    xs, ys = wrap(x), wrap(y)
    spx = S._conc_special(xs) if not xs.sym else None
    spy = S._conc_special(ys) if not ys.sym else None
    if spx or spy:
        if spx == "nan" or spy == "nan":
            if not equal_nan:
                return False
            return S._logic(isnan(xs), isnan(ys), "and")
        # infinities: equal only to the same infinity
        if spx and spy:
            return spx == spy
        return False
    close = abs(xs - ys) <= atol + rtol * abs(ys)
    if equal_nan and (xs.nan is not None or ys.nan is not None):
        both = S._logic(isnan(xs), isnan(ys), "and")
        close = S._logic(close, both, "or")
    return close


def allclose(a, b, rtol=1e-5, atol=1e-8, equal_nan=False):
    r = isclose(a, b, rtol, atol, equal_nan)
    if isinstance(r, ndarray):
        r = r.all()
    return builtins.bool(r)


def array_equal(a, b, equal_nan=False):
    if a is None or b is None:
        return a is None and b is None     # 0-d object arrays: equal only to each other
    try:
        a, b = asarray(a), asarray(b)
    except (Exception, ShimUnsupported):
        return False
    if a.shape != b.shape:
        return False
    return builtins.bool((a == b).all())


def array_equiv(a, b):
    return array_equal(a, b)


# ----------------------------------------------------------------------------- sorting / searching
def _lt_nan_last(x, y):
    """x sorts strictly before y (NaN last): x < y, or y is NaN and x is not."""
    r = x < y
    ny = isnan(wrap(y))
    if ny is False:
        return r
    nx = isnan(wrap(x))
    not_nx = (not nx) if isinstance(nx, builtins.bool) else ~nx
    return S._logic(r, S._logic(ny, not_nx, "and"), "or")


def argsort(a, axis=-1, kind=None, **kw):
    a = asarray(a)
    if a.ndim != 1:
        raise ShimUnsupported("argsort on ndim != 1")
    items = a._items()
    idx = []
    for i in range(len(items)):
        pos = len(idx)
        for p, j in enumerate(idx):
            if _lt_nan_last(items[i], items[j]):
                pos = p
                break
        idx.insert(pos, i)
    return ndarray._from_list([_mk(S.int64, i) for i in idx], (len(idx),), dtype(int))


def sort(a, axis=-1, **kw):
    a = asarray(a)
    return a[argsort(a)]


def searchsorted(a, v, side="left", sorter=None):
    a = asarray(a)
    if a.ndim != 1:
        raise ValueError("object too deep for desired array")
    if side not in ("left", "right"):
        raise ValueError(f"side must be 'left' or 'right' (got {side!r})")
    items = a._items()

    def one(x):
        x = wrap(x)
        count = 0
        for y in items:
            # NaN is treated as larger than everything
            before = _lt_nan_last(y, x) if side == "left" else (not builtins.bool(_lt_nan_last(x, y)))
            if before:
                count += 1
            else:
                break
        return _mk(S.int64, count)

    if isinstance(v, (ndarray, list, tuple)):
        v = asarray(v)
        return ndarray._from_list([one(x) for x in v._items()], v.shape, dtype(int))
    return one(v)


def argmin(a, axis=None):
    a = asarray(a)
    items = a._items()
    if not items:
        raise ValueError("attempt to get argmin of an empty sequence")
    best = 0
    for i in range(1, len(items)):
        if items[i] < items[best]:
            best = i
    return _mk(S.int64, best)


def argmax(a, axis=None):
    a = asarray(a)
    items = a._items()
    if not items:
        raise ValueError("attempt to get argmax of an empty sequence")
    best = 0
    for i in range(1, len(items)):
        if items[i] > items[best]:
            best = i
    return _mk(S.int64, best)


def median(a, axis=None, **kw):
    a = asarray(a).flatten()
    n = a.size
    if n == 0:
        return _mk(S.float64, nan)
    s = sort(a)._items()
    r = s[n // 2] if n % 2 else (s[n // 2 - 1] + s[n // 2]) / 2
    return cast_scalar(wrap(r), S.float64) if wrap(r)._kind != "f" else r


def percentile(a, q, **kw):
    a = asarray(a).flatten()
    n = a.size
    if n == 0:
        raise IndexError("index -1 is out of bounds for axis 0 with size 0")
    s = sort(a)._items()

    def one(p):
        p = wrap(p)
        if p.sym:
            raise ShimUnsupported("percentile with symbolic q")
        if not 0 <= p.v <= 100:
            raise ValueError("Percentiles must be in the range [0, 100]")
        pos = p.v / 100 * (n - 1)
        lo = int(math.floor(pos))
        hi = builtins.min(lo + 1, n - 1)
        g = pos - lo
        lo_v, hi_v = _to_float(wrap(s[lo])), _to_float(wrap(s[hi]))
        if g == 0:
            return cast_scalar(lo_v, S.float64)
        return cast_scalar(lo_v + (hi_v - lo_v) * g, S.float64)

    if isinstance(q, (ndarray, list, tuple)):
        q = asarray(q)
        return ndarray._from_list([one(x) for x in q._items()], q.shape, dtype(float))
    return one(q)


def quantile(a, q, **kw):
    return percentile(a, asarray(q) * 100 if isinstance(q, (ndarray, list, tuple)) else q * 100)


def unique(a, **kw):
    """Sorted distinct elements (forks over the order and over the equalities of neighbours)."""
    if kw:
        raise ShimUnsupported("unique with options")
    flat = sort(asarray(a).flatten())
    items = flat._items()
    out = []
    for x in items:
        if out and builtins.bool(out[-1] == x):
            continue
        out.append(x)
    return ndarray._from_list(out, (len(out),), flat.dtype)


def swapaxes(a, axis1, axis2):
    a = asarray(a)
    perm = list(range(a.ndim))
    perm[axis1], perm[axis2] = perm[axis2], perm[axis1]
    return a.transpose(perm)


def take(a, indices, axis=None, **kw):
    a = asarray(a)
    if axis is None:
        return a.flatten()[indices]
    key = [slice(None)] * a.ndim
    key[axis] = indices if isinstance(indices, (int, slice)) or hasattr(indices, "_kind") else asarray(indices)
    return a[tuple(key)]


def fmod(a, b):
    """C fmod: the result has the sign of the dividend (np.mod / % has the sign of the divisor)."""
    a_, b_ = asarray(a), asarray(b)
    r = a_ % b_
    fix = (r != 0) & ((a_ < 0) != (b_ < 0))
    out = where(fix, r - b_, r)
    return out if (a_.ndim or b_.ndim) else out[()]


# ----------------------------------------------------------------------------- histogramdd (numpy's contract)
def histogramdd(sample, bins=10, range=None, density=None, weights=None):
    """Model of numpy.histogramdd for explicit monotone edge arrays (documented contract):
    per axis bins [e_j, e_j+1), the last one closed; outliers and NaN dropped; float64 result.
    Encoded in merged form: every cell is a sum of ite terms (no forks over the data)."""
    sample = asarray(sample)
    if sample.ndim == 1:
        sample = sample[:, None]
    if sample.ndim != 2:
        raise ShimUnsupported("histogramdd sample of ndim > 2")
    n, d = sample.shape
    if isinstance(bins, (builtins.int, generic)):
        raise ShimUnsupported("histogramdd with a bin count")
    if len(bins) != d:
        raise ValueError("The dimension of bins must be equal to the dimension of the sample x.")
    edges = []
    for k, b in enumerate(bins):
        b = asarray(b, dtype=float)
        if b.ndim != 1:
            raise ValueError(f"`bins[{k}]` must be a scalar or 1d array")
        if b.size and builtins.bool((b[:-1] > b[1:]).any()):
            raise ValueError(f"`bins[{k}]` must be monotonically increasing, when an array")
        edges.append(b)
    if weights is not None:
        weights = asarray(weights)
        if weights.shape != (n,):
            raise ValueError("weights should have the same shape as the sample" if weights.ndim != 1 else "The weights and list don't have the same length.")
    shp = tuple(builtins.max(e.size - 1, 0) for e in edges)
    rows = sample._items()
    E = [e._items() for e in edges]
    wts = weights._items() if weights is not None else None
    # membership terms member[k][j][i]
    member = []
    for k in builtins.range(d):
        mk = []
        m = len(E[k]) - 1
        for j in builtins.range(m):
            col = []
            for i in builtins.range(n):
                x = rows[i * d + k]
                lo, hi = E[k][j], E[k][j + 1]
                c = S._logic(x >= lo, (x <= hi) if j == m - 1 else (x < hi), "and")
                col.append(c)
            mk.append(col)
        member.append(mk)
    out = []
    for idx in itertools.product(*[builtins.range(s) for s in shp]):
        acc = _mk(S.float64, 0.0)
        for i in builtins.range(n):
            c = True
            for k in builtins.range(d):
                c = S._logic(c, member[k][idx[k]][i], "and")
                if c is False:
                    break
            if c is False:
                continue
            w = _mk(S.float64, 1.0) if wts is None else cast_scalar(wts[i], S.float64)
            acc = acc + S.ite(c, w, 0.0)
        out.append(cast_scalar(wrap(acc), S.float64))
    return ndarray._from_list(out, shp, dtype(float)), edges


def histogram(a, bins=10, range=None, weights=None, density=None):
    h, e = histogramdd(asarray(a).flatten()[:, None], [bins], weights=weights)
    return h, e[0]
