"""Contract stub of the small part of pandas that physt.compat.pandas touches (symbolic process only).

Series / DataFrame are thin wrappers over model arrays with pandas' documented semantics for: astype, notna / isna,
dropna (row-wise for frames), isna().any() (column-wise reduction, as in pandas), .values, column selection, items(),
shape, columns, names; api.types.is_numeric_dtype; api.extensions.register_*_accessor; IntervalIndex.from_arrays.
The concrete twin uses the real pandas, so every witness replay compares this stub with pandas."""
from __future__ import annotations

import sys
import types


def install():
    import numpy as np  # the model

    from .. import scalars as S

    class _ObjDtype:
        kind = "O"
        name = "object"

        def __repr__(self):
            return "dtype('O')"

    OBJ = _ObjDtype()

    def _is_obj(data):
        return any(isinstance(v, str) for v in data) if isinstance(data, (list, tuple)) else False

    class Series:
        def __init__(self, data=None, name=None, index=None, dtype=None):
            if isinstance(data, Series):
                data, name = data._a, name if name is not None else data.name
            if _is_obj(data):
                self._a, self._obj = list(data), True
            else:
                self._a, self._obj = np.asarray(data if data is not None else [], dtype=dtype), False
                if self._a.ndim != 1:
                    raise ValueError("Data must be 1-dimensional")
            self.name = name
            self.index = index

        @property
        def dtype(self):
            return OBJ if self._obj else self._a.dtype

        @property
        def values(self):
            return self._a

        @property
        def shape(self):
            return (len(self._a),) if self._obj else self._a.shape

        def __len__(self):
            return len(self._a)

        def __iter__(self):
            return iter(self._a)

        def astype(self, t):
            if self._obj:
                raise ValueError("could not convert string to float")
            return Series(self._a.astype(t), name=self.name)

        def _nan_mask(self):
            if self._a.dtype.kind != "f":
                return np.zeros(self._a.shape, dtype=bool)
            return np.isnan(self._a)

        def isna(self):
            return Series(self._nan_mask(), name=self.name)

        def notna(self):
            return Series(~self._nan_mask(), name=self.name)

        def dropna(self):
            return Series(self._a[~self._nan_mask()], name=self.name)

        def any(self):
            return self._a.any()

        def __invert__(self):
            return Series(~self._a, name=self.name)

        def __array__(self, dtype=None):
            return self._a

    class _Columns(list):
        def __init__(self, names):
            super().__init__(names)
            self.values = list(names)

    class DataFrame:
        def __init__(self, data=None, columns=None, index=None):
            self._cols = {}
            if isinstance(data, dict):
                for k, v in data.items():
                    self._cols[k] = v if isinstance(v, Series) else Series(v, name=k)
                    self._cols[k].name = k
            elif data is not None:
                arr = np.asarray(data)
                names = list(columns) if columns is not None else list(range(arr.shape[1]))
                for j, k in enumerate(names):
                    self._cols[k] = Series(arr[:, j], name=k)
            self.index = index
            lens = {len(s) for s in self._cols.values()}
            if len(lens) > 1:
                raise ValueError("All arrays must be of the same length")

        @property
        def columns(self):
            return _Columns(self._cols.keys())

        @property
        def shape(self):
            n = len(next(iter(self._cols.values()))) if self._cols else 0
            return (n, len(self._cols))

        def items(self):
            return list(self._cols.items())

        def __getitem__(self, key):
            if isinstance(key, (list, _Columns)):
                missing = [k for k in key if k not in self._cols]
                if missing:
                    raise KeyError(f"{missing} not in index")
                return DataFrame({k: self._cols[k] for k in key})
            if key not in self._cols:
                raise KeyError(key)
            return self._cols[key]

        def astype(self, t):
            return DataFrame({k: s.astype(t) for k, s in self._cols.items()})

        def isna(self):
            return DataFrame({k: s.isna() for k, s in self._cols.items()})

        def any(self, axis=0):
            if axis == 1:
                # one boolean per ROW
                n = self.shape[0]
                acc = np.zeros(n, dtype=bool)
                for s in self._cols.values():
                    acc = acc | (s._a != 0 if s._a.dtype.kind != "b" else s._a)
                return Series(acc, name=None)
            if axis != 0:
                raise NotImplementedError
            # pandas: DataFrame.any() reduces over the rows -> one boolean per COLUMN
            return Series([s._a.any() for s in self._cols.values()], name=None)

        def dropna(self):
            if not self._cols:
                return self
            n = self.shape[0]
            keep = np.ones(n, dtype=bool)
            for s in self._cols.values():
                keep = keep & ~s._nan_mask()
            return DataFrame({k: Series(s._a[keep], name=k) for k, s in self._cols.items()})

        @property
        def values(self):
            cols = [s._a for s in self._cols.values()]
            if not cols:
                return np.zeros((0, 0))
            return np.concatenate([c[:, np.newaxis] for c in cols], axis=1)

    def is_numeric_dtype(obj):
        dt = getattr(obj, "dtype", obj)
        return getattr(dt, "kind", "O") in "iufb"

    def _register(target):
        def register(name):
            def deco(cls):
                def getter(self):
                    return cls(self)  # accessor __init__ may raise AttributeError -> attribute "does not exist"

                setattr(target, name, property(getter))
                return cls

            return deco

        return register

    class IntervalIndex:
        def __init__(self, left, right, closed, name=None):
            self.left, self.right = Series(left), Series(right)
            self.closed, self.name = closed, name

        @classmethod
        def from_arrays(cls, left, right, closed="right", name=None):
            return cls(left, right, closed, name)

        @property
        def closed_left(self):
            return self.closed in ("left", "both")

        @property
        def is_overlapping(self):
            l, r = self.left._a, self.right._a
            for i in range(len(l)):
                for j in range(len(l)):
                    if i != j and bool((l[i] < r[j]) & (l[j] < r[i])):
                        return True
            return False

        def __len__(self):
            return len(self.left)

    def cut(*a, **k):
        raise NotImplementedError("pandas.cut is outside the stub")

    pd = types.ModuleType("pandas")
    pd.Series, pd.DataFrame, pd.IntervalIndex, pd.cut = Series, DataFrame, IntervalIndex, cut
    pd.__version__ = "stub"
    api = types.ModuleType("pandas.api")
    api.types = types.ModuleType("pandas.api.types")
    api.types.is_numeric_dtype = is_numeric_dtype
    api.extensions = types.ModuleType("pandas.api.extensions")
    api.extensions.register_series_accessor = _register(Series)
    api.extensions.register_dataframe_accessor = _register(DataFrame)
    pd.api = api
    sys.modules.update({"pandas": pd, "pandas.api": api, "pandas.api.types": api.types, "pandas.api.extensions": api.extensions})
    return pd
