"""Contract stubs (symbolic process only) of the dask graph protocol and of xarray's passive containers.

dask: an Array is a name + a list of chunk arrays; `.dask` maps (name, i) keys to the chunks, `__dask_keys__()` lists the
keys; `dask.get(graph, key)` evaluates the classic graph spec: a task is a tuple (callable, *args), args that are keys of
the graph (or lists of such) are substituted by their values.  `dask.threaded.get` = same result (scheduling itself is not
modelled).  xarray: DataArray / Dataset store what they are given (values, dims, attrs)."""
from __future__ import annotations

import sys
import types


def install():
    import numpy as np  # the model

    class Array:
        _count = 0

        def __init__(self, chunks_list, name=None):
            Array._count += 1
            self.name = name or f"array-{Array._count}"
            self._chunks = list(chunks_list)
            self.ndim = self._chunks[0].ndim if self._chunks else 1

        @property
        def shape(self):
            n = sum(c.shape[0] for c in self._chunks)
            return (n,) + tuple(self._chunks[0].shape[1:]) if self._chunks else (0,)

        def __dask_keys__(self):
            if self.ndim == 1:
                return [(self.name, i) for i in range(len(self._chunks))]
            return [[(self.name, i, 0)] for i in range(len(self._chunks))]

        @property
        def dask(self):
            if self.ndim == 1:
                return {(self.name, i): c for i, c in enumerate(self._chunks)}
            return {(self.name, i, 0): c for i, c in enumerate(self._chunks)}

    def from_array(x, chunks):
        x = np.asarray(x)
        size = chunks[0] if isinstance(chunks, tuple) else chunks
        size = max(int(size), 1)
        n = x.shape[0]
        return Array([x[i:i + size] for i in range(0, n, size)] or [x])

    def _is_key(graph, a):
        try:
            return a in graph
        except TypeError:
            return False

    def _eval(graph, a, cache):
        if isinstance(a, list):
            return [_eval(graph, i, cache) for i in a]
        if isinstance(a, (str, tuple)) and _is_key(graph, a):
            k = a
            if k not in cache:
                cache[k] = _eval_task(graph, graph[k], cache)
            return cache[k]
        return a

    def _eval_task(graph, task, cache):
        if isinstance(task, tuple) and task and callable(task[0]):
            return task[0](*[_eval(graph, a, cache) for a in task[1:]])
        return _eval(graph, task, cache)

    def get(graph, key):
        return _eval(graph, key, {})

    dask = types.ModuleType("dask")
    dask.get = get
    dask.array = types.ModuleType("dask.array")
    dask.array.Array = Array
    dask.array.from_array = from_array
    dask.array.rechunk = types.ModuleType("dask.array.rechunk")
    dask.array.rechunk.rechunk = lambda data, spec: data
    dask.threaded = types.ModuleType("dask.threaded")
    dask.threaded.get = get
    sys.modules.update({"dask": dask, "dask.array": dask.array, "dask.threaded": dask.threaded, "dask.array.rechunk": dask.array.rechunk})

    class DataArray:
        def __init__(self, data, dims=None, **kw):
            self.values = np.asarray(data)
            self.dims = (dims,) if isinstance(dims, str) else tuple(dims or ())

        def __array__(self, dtype=None):
            return self.values

        @property
        def shape(self):
            return self.values.shape

    class Dataset:
        def __init__(self, data_vars=None, coords=None, attrs=None):
            self.data_vars = dict(data_vars or {})
            self.coords = dict(coords or {})
            self.attrs = dict(attrs or {})

        def __getitem__(self, k):
            return self.data_vars[k]

    xr = types.ModuleType("xarray")
    xr.DataArray, xr.Dataset = DataArray, Dataset
    sys.modules["xarray"] = xr
