"""Stub packages for the plotting back ends (matplotlib, plotly): passive recorders + the few functional pieces
(Normalize, a grey-level colormap) physt's plotting code computes with.  Installed into sys.modules by the loader
in the SYMBOLIC process only; the concrete twin uses the real packages."""
from __future__ import annotations

import sys
import types


def _mod(name, **attrs):
    m = types.ModuleType(name)
    m.__dict__.update(attrs)
    sys.modules[name] = m
    return m


class Recorder:
    """Generic object that records constructor arguments and attribute assignments."""

    def __init__(self, *args, **kwargs):
        self.args = args
        self.kwargs = kwargs

    def __getattr__(self, name):
        if name.startswith("__") or name in ("tolist", "_buf", "item", "v", "nan", "sym", "shape", "dtype", "name", "kind", "type", "keys"):
            raise AttributeError(name)
        r = Recorder()
        object.__setattr__(self, name, r)
        return r

    def __call__(self, *a, **k):
        return Recorder(*a, **k)


def install():
    import numpy as np  # the model

    # ---------------------------------------------------------------- matplotlib
    class Normalize:
        def __init__(self, vmin=None, vmax=None, clip=False):
            self.vmin, self.vmax, self.clip = vmin, vmax, clip

        def __call__(self, data):
            a = np.asarray(data, dtype=float)
            span = self.vmax - self.vmin
            out = (a - self.vmin) / span if not _is_zero(span) else a * 0.0
            if self.clip:
                out = np.clip(out, 0.0, 1.0)
            return out

    def _is_zero(x):
        r = x == 0
        return bool(r)

    class LogNorm(Normalize):
        def __call__(self, data):
            raise NotImplementedError("LogNorm is outside the stub's contract")

    class Colormap:
        """Grey-level colour map: cmap(v) = (v, v, v, 1) - strictly monotone in v."""

        def __init__(self, name="stub"):
            self.name = name

        def __call__(self, x):
            if np.isscalar(x):
                return (x, x, x, 1.0)
            a = np.asarray(x, dtype=float)
            flat = a.flatten()
            out = np.zeros((flat.size, 4), dtype=float)
            for i in range(flat.size):
                out[i, 0] = flat[i]
                out[i, 1] = flat[i]
                out[i, 2] = flat[i]
                out[i, 3] = 1.0
            return out.reshape(tuple(a.shape) + (4,)) if a.ndim != 1 else out

    class ListedColormap(Colormap):
        def __init__(self, colors, name="listed"):
            super().__init__(name)
            self.colors = colors

    class Patch(Recorder):
        pass

    class Rectangle(Patch):
        def __init__(self, xy, width, height, **kwargs):
            super().__init__(xy, width, height, **kwargs)
            self.xy, self.width, self.height = xy, width, height

        def get_xy(self):
            return self.xy

        def get_width(self):
            return self.width

        def get_height(self):
            return self.height

        def get_facecolor(self):
            return self.kwargs.get("facecolor")

    class PathPatch(Patch):
        pass

    class Path(Recorder):
        MOVETO, LINETO, CLOSEPOLY = 1, 2, 79

    class ScalarMappable(Recorder):
        def set_array(self, a):
            self.array = a

    mpl = _mod("matplotlib", rcParams={"figure.figsize": [6.4, 4.8]}, __version__="stub")
    mpl.cm = _mod("matplotlib.cm", ScalarMappable=ScalarMappable)
    mpl.colors = _mod("matplotlib.colors", Normalize=Normalize, LogNorm=LogNorm, Colormap=Colormap, ListedColormap=ListedColormap)
    mpl.patches = _mod("matplotlib.patches", Rectangle=Rectangle, PathPatch=PathPatch, Patch=Patch)
    mpl.path = _mod("matplotlib.path", Path=Path)

    def get_cmap(name=None):
        if isinstance(name, str) and name.startswith("no_such"):
            raise ValueError(f"{name!r} is not a valid value for cmap")
        return Colormap(name or "stub")

    def subplots(*a, **k):
        fig = Recorder()
        ax = Recorder()
        ax.figure = fig
        return fig, ax

    mpl.pyplot = _mod("matplotlib.pyplot", get_cmap=get_cmap, subplots=subplots, figure=lambda **k: Recorder())
    _mod("matplotlib.axes", Axes=Recorder)
    _mod("matplotlib.figure", Figure=Recorder)
    tk = _mod("mpl_toolkits")
    tk.mplot3d = _mod("mpl_toolkits.mplot3d", Axes3D=Recorder)
    tk.mplot3d.art3d = _mod("mpl_toolkits.mplot3d.art3d", Poly3DCollection=Recorder)

    # ---------------------------------------------------------------- plotly
    class Trace(Recorder):
        def __init__(self, **kwargs):
            super().__init__(**kwargs)
            for k, v in kwargs.items():
                object.__setattr__(self, k, v)

    class Bar(Trace):
        pass

    class Scatter(Trace):
        pass

    class Heatmap(Trace):
        pass

    class _Axis:
        tickvals = None
        ticktext = None

    class Layout(Recorder):
        def __init__(self, **kwargs):
            super().__init__(**kwargs)
            object.__setattr__(self, "xaxis", _Axis())
            object.__setattr__(self, "yaxis", _Axis())
            for k, v in kwargs.items():
                object.__setattr__(self, k, v)

    class Figure:
        def __init__(self, data=None, layout=None):
            self.data = tuple(data or ())
            self.layout = layout

    go = _mod("plotly.graph_objs", Bar=Bar, Scatter=Scatter, Heatmap=Heatmap, Layout=Layout, Figure=Figure)
    go.layout = _mod("plotly.graph_objs.layout", XAxis=_Axis)
    pl = _mod("plotly", graph_objs=go)
    pl.offline = _mod("plotly.offline", plot=lambda *a, **k: None)
