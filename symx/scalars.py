"""symx.scalars - numpy-like scalar types whose payload is a Python number or a z3 term (R-mode).

Class hierarchy mirrors numpy's (generic > number > integer/floating > int64 ...), plus
`pyint` / `pyfloat` which model *Python* int / float objects with a symbolic value
(they are "weak" in type promotion, `isinstance(x, int)` is true for them under the
shadowed isinstance, and `np.dtype(type(x))` maps them to int64 / float64).

Payload conventions
  bool_    : v is a Python bool or a z3 BoolRef
  integers : v is a Python int or a z3 ArithRef of sort Int
  floats   : v is a Python float (may be nan/inf) or a z3 ArithRef of sort Real;
             nan is None (certainly not NaN) or a z3 BoolRef ("this value is NaN")
"""
from __future__ import annotations

import builtins
import math
import numbers
import warnings
from fractions import Fraction

import z3

from . import core
from .core import ShimUnsupported

INF = float("inf")
NAN = float("nan")


def _is_z3(v):
    return isinstance(v, z3.ExprRef)


def lift_num(v):
    """Python number -> z3 numeral (exact).  Raises for nan/inf."""
    if isinstance(v, bool):
        return z3.IntVal(int(v))
    if isinstance(v, int):
        return z3.IntVal(v)
    if isinstance(v, float):
        if v != v or v in (INF, -INF):
            raise _Unliftable()
        if v.is_integer() and abs(v) < 2**62:
            return z3.RealVal(int(v))
        n, d = v.as_integer_ratio()
        return z3.Q(n, d)
    if isinstance(v, Fraction):
        return z3.Q(v.numerator, v.denominator)
    raise TypeError(f"cannot lift {v!r}")


class _Unliftable(Exception):
    pass


# ----------------------------------------------------------------------------- classes
class generic:
    __slots__ = ("v", "nan")
    _kind = "O"
    _name = "generic"
    _rank = -1
    _py = False

    def __new__(cls, value=0, *a, **k):
        if cls in (generic, number, integer, floating, signedinteger, unsignedinteger, inexact):
            raise TypeError(f"cannot create '{cls.__name__}' instances")
        return cast_scalar(value, cls)

    def __init__(self, *a, **k):
        pass

    # -- helpers
    @property
    def sym(self):
        return _is_z3(self.v)

    @property
    def dtype(self):
        from .arrays import dtype as _dtype

        return _dtype(type(self))

    @property
    def shape(self):
        return ()

    @property
    def ndim(self):
        return 0

    @property
    def size(self):
        return 1

    @property
    def real(self):
        return self

    @property
    def T(self):
        return self

    def item(self):
        if self.sym or (self.nan is not None):
            if self._kind == "b":
                return self
            return _mk(pyint if self._kind == "i" else pyfloat, self.v, self.nan)
        return self.v

    def tolist(self):
        return self.item()

    def astype(self, dt, **kw):
        from .arrays import dtype as _dtype

        return cast_scalar(self, _dtype(dt).type)

    def copy(self):
        return self

    def flatten(self):
        from .arrays import asarray

        return asarray([self])

    def sum(self, *a, **k):
        return self

    def min(self, *a, **k):
        return self

    def max(self, *a, **k):
        return self

    def any(self, *a, **k):
        return self != 0

    def all(self, *a, **k):
        return self != 0

    def round(self, decimals=0):
        return _round(self, decimals)

    def __round__(self, n=None):
        r = _round(self, n or 0)
        if n is None:
            return py_int(r)
        return r

    def __array_priority__(self):
        return 0

    # -- conversions
    def __bool__(self):
        if self._kind == "b":
            if self.sym:
                return core.cur().branch(self.v)
            return self.v
        r = self != 0
        return r if isinstance(r, bool) else bool(r)

    def __index__(self):
        if self._kind == "f":
            raise TypeError(f"'{self._name}' object cannot be interpreted as an integer")
        if self._kind == "b":
            return int(bool(self))
        if self.sym:
            return core.cur().choose_int(self.v)
        return self.v

    def __int__(self):
        r = py_int(self)
        if isinstance(r, generic):
            return r.__index__()
        return r

    def __float__(self):
        if self.sym or self.nan is not None:
            raise ShimUnsupported("float() of a symbolic value outside of a shadowed module")
        return float(self.v)

    def __hash__(self):
        if self.sym or self.nan is not None:
            raise TypeError("unhashable symbolic scalar")
        return hash(self.v)

    def __repr__(self):
        if self.sym:
            return f"<{self._name} sym>"
        return f"{self._name}({self.v!r})"

    def __str__(self):
        if self.sym:
            return "<sym>"
        return str(self.v)

    def __format__(self, spec):
        if self.sym or self.nan is not None:
            return "<sym>"
        return format(self.v, spec)

    # -- arithmetic
    def __add__(self, o):
        return _arith(self, o, "add")

    def __radd__(self, o):
        return _arith(o, self, "add")

    def __sub__(self, o):
        return _arith(self, o, "sub")

    def __rsub__(self, o):
        return _arith(o, self, "sub")

    def __mul__(self, o):
        return _arith(self, o, "mul")

    def __rmul__(self, o):
        return _arith(o, self, "mul")

    def __truediv__(self, o):
        return _arith(self, o, "div")

    def __rtruediv__(self, o):
        return _arith(o, self, "div")

    def __floordiv__(self, o):
        return _arith(self, o, "floordiv")

    def __rfloordiv__(self, o):
        return _arith(o, self, "floordiv")

    def __mod__(self, o):
        return _arith(self, o, "mod")

    def __rmod__(self, o):
        return _arith(o, self, "mod")

    def __divmod__(self, o):
        return (_arith(self, o, "floordiv"), _arith(self, o, "mod"))

    def __rdivmod__(self, o):
        return (_arith(o, self, "floordiv"), _arith(o, self, "mod"))

    def __pow__(self, o):
        return _power(self, o)

    def __rpow__(self, o):
        return _power(o, self)

    def __neg__(self):
        if self._kind == "b":
            raise TypeError("The numpy boolean negative, the `-` operator, is not supported")
        if self.sym:
            return _mk(type(self), -self.v, self.nan)
        return _mk(type(self), -self.v, None)

    def __pos__(self):
        return self

    def __abs__(self):
        if self.sym:
            return _mk(type(self), z3.If(self.v >= 0, self.v, -self.v), self.nan)
        return _mk(type(self), abs(self.v), None)

    # -- comparisons
    def __lt__(self, o):
        return _compare(self, o, "lt")

    def __le__(self, o):
        return _compare(self, o, "le")

    def __gt__(self, o):
        return _compare(self, o, "gt")

    def __ge__(self, o):
        return _compare(self, o, "ge")

    def __eq__(self, o):
        return _compare(self, o, "eq")

    def __ne__(self, o):
        return _compare(self, o, "ne")

    # -- logic (bool_ and integers)
    def __invert__(self):
        if self._kind == "b":
            return _mk(bool_, z3.Not(self.v), None) if self.sym else (not self.v)
        raise ShimUnsupported("bitwise invert on integers")

    def __and__(self, o):
        return _logic(self, o, "and")

    def __rand__(self, o):
        return _logic(o, self, "and")

    def __or__(self, o):
        return _logic(self, o, "or")

    def __ror__(self, o):
        return _logic(o, self, "or")

    def __xor__(self, o):
        return _logic(self, o, "xor")

    def __rxor__(self, o):
        return _logic(o, self, "xor")


class bool_(generic):
    __slots__ = ()
    _kind = "b"
    _name = "bool"
    _rank = 0


class number(generic):
    __slots__ = ()


class integer(number):
    __slots__ = ()
    _kind = "i"
    _unsigned = False


class signedinteger(integer):
    __slots__ = ()


class unsignedinteger(integer):
    """Unsigned types keep the internal kind "i" (every integer rule of the model applies); dtype.kind reports "u"."""
    __slots__ = ()
    _unsigned = True


class inexact(number):
    __slots__ = ()


class floating(inexact):
    __slots__ = ()
    _kind = "f"


class int16(signedinteger):
    __slots__ = ()
    _name = "int16"
    _rank = 1


class int32(signedinteger):
    __slots__ = ()
    _name = "int32"
    _rank = 2


class uint16(unsignedinteger):
    __slots__ = ()
    _name = "uint16"
    _rank = 1


class uint32(unsignedinteger):
    __slots__ = ()
    _name = "uint32"
    _rank = 2


class uint64(unsignedinteger):
    __slots__ = ()
    _name = "uint64"
    _rank = 3


class int64(signedinteger):
    __slots__ = ()
    _name = "int64"
    _rank = 3


class float16(floating):
    __slots__ = ()
    _name = "float16"
    _rank = 4


class float32(floating):
    __slots__ = ()
    _name = "float32"
    _rank = 5


class float64(floating):
    __slots__ = ()
    _name = "float64"
    _rank = 6


class float128(floating):
    __slots__ = ()
    _name = "float128"
    _rank = 7


class str_(generic):
    __slots__ = ()
    _kind = "U"
    _name = "str"
    _rank = 20


class object_(generic):
    __slots__ = ()
    _kind = "O"
    _name = "object"
    _rank = 21


class complex128(generic):
    __slots__ = ()
    _kind = "c"
    _name = "complex128"
    _rank = 22


longdouble = float128
intp = int_ = int64
double = float_ = float64


class pyint(generic):
    """Model of a Python int with a symbolic value."""

    __slots__ = ()
    _kind = "i"
    _name = "int"
    _py = True


class pyfloat(generic):
    """Model of a Python float with a symbolic value."""

    __slots__ = ()
    _kind = "f"
    _name = "float"
    _py = True


numbers.Number.register(generic)

NP_TYPES = [bool_, int16, int32, int64, uint16, uint32, uint64, float16, float32, float64, float128]
BY_NAME = {c._name: c for c in NP_TYPES}
BY_NAME["longdouble"] = float128


def _mk(cls, v, nan=None):
    s = object.__new__(cls)
    s.v = v
    s.nan = nan
    return s


# ----------------------------------------------------------------------------- promotion
_I2F = {int16: float32, int32: float64, int64: float64, uint16: float32, uint32: float64, uint64: float64}
_U2S = {uint16: int32, uint32: int64, uint64: float64}   # smallest signed type holding every value of the unsigned one


def promote_cls(a, b):
    """numpy.promote_types on the concrete scalar classes."""
    if a is b:
        return a
    if a is bool_:
        return b
    if b is bool_:
        return a
    if a._kind == b._kind:
        if a._kind == "i" and a._unsigned != b._unsigned:
            u, sg = (a, b) if a._unsigned else (b, a)
            return sg if sg._rank > u._rank else _U2S[u]
        return a if a._rank >= b._rank else b
    i, f = (a, b) if a._kind == "i" else (b, a)
    need = _I2F[i]
    return need if need._rank >= f._rank else f


def result_cls(a, b, op="add"):
    """Result class of a binary arithmetic operation between scalars of classes a, b."""
    if getattr(a, "_fp", False):
        a = float64
    if getattr(b, "_fp", False):
        b = float64
    if a._py and b._py:
        if op == "div" or "f" in (a._kind, b._kind):
            return pyfloat
        return pyint
    if a._py or b._py:
        weak, strong = (a, b) if a._py else (b, a)
        if strong is bool_:
            r = int64 if weak._kind == "i" else float64
        elif weak._kind == "f" and strong._kind == "i":
            r = float64
        else:
            r = strong
    else:
        r = promote_cls(a, b)
    if op == "div" and r._kind != "f":
        r = float64
    if r is bool_ and op in ("add", "mul"):
        return bool_
    if r is bool_:
        raise TypeError("numpy boolean subtract, the `-` operator, is not supported")
    return r


# ----------------------------------------------------------------------------- wrapping
def wrap(x):
    """Python number / scalar -> scalar object (weak python classes for python numbers)."""
    if isinstance(x, generic):
        return x
    if isinstance(x, bool):
        return _mk(bool_, x)
    if isinstance(x, int):
        return _mk(pyint, x)
    if isinstance(x, float):
        return _mk(pyfloat, x)
    return None


def term(x):
    """z3 term of a scalar / python number (finite)."""
    if isinstance(x, generic):
        if x.sym:
            return x.v
        if x._kind == "b":
            return z3.BoolVal(x.v)
        return lift_num(x.v)
    if isinstance(x, bool):
        return z3.BoolVal(x)
    return lift_num(x)


def nan_term(x):
    """z3 Bool: 'x is NaN'."""
    if isinstance(x, generic):
        if x.nan is not None:
            return x.nan
        if not x.sym and isinstance(x.v, float) and x.v != x.v:
            return z3.BoolVal(True)
    elif isinstance(x, float) and x != x:
        return z3.BoolVal(True)
    return z3.BoolVal(False)


def _conc_special(s):
    """'nan' / 'inf' / '-inf' / None for a scalar's concrete payload."""
    v = s.v
    if isinstance(v, float):
        if v != v:
            return "nan"
        if v == INF:
            return "inf"
        if v == -INF:
            return "-inf"
    return None


def _or(a, b):
    if a is None:
        return b
    if b is None:
        return a
    return z3.Or(a, b)


_INT_BITS = {"int16": 16, "int32": 32, "uint16": 16, "uint32": 32, "uint64": 64}
# smallest magnitudes that round to infinity in the narrow float types
_FLOAT_OVERFLOW = {"float16": 65520.0, "float32": 3.4028235677973366e38}


def _wrap_int(v, cls):
    """Two's-complement wrap-around of an integer value stored into a narrower integer type (int64 is treated as unbounded)."""
    bits = _INT_BITS.get(cls._name)
    if bits is None:
        return v
    if cls._unsigned:
        return v % (2 ** bits) if isinstance(v, int) else z3.simplify(v % (2 ** bits))
    half = 2 ** (bits - 1)
    if isinstance(v, int):
        return (v + half) % (2 * half) - half
    return z3.simplify((v + half) % (2 * half) - half)


def cast_scalar(x, cls):
    """Convert x (python number, scalar, 0-d/size-1 array, str) to scalar class cls."""
    if not isinstance(x, generic):
        if isinstance(x, (bool, int, float)):
            x = wrap(x)
        elif isinstance(x, str):
            x = wrap(float(x) if cls._kind == "f" else int(x))
        elif hasattr(x, "_buf") and x.size == 1:
            x = x._first()
        elif x is None:
            if cls._kind == "f":
                return _mk(cls, NAN)
            raise TypeError("int() argument must be a string, a bytes-like object or a real number, not 'NoneType'")
        else:
            raise TypeError(f"cannot convert {type(x).__name__} to {cls._name}")
    if type(x) is cls:
        return x
    if getattr(type(x), "_fp", False):
        if cls._kind == "f":
            return x
        if cls._kind == "i":
            from . import fp

            return fp.trunc(x)
        raise ShimUnsupported("FP-mode value cast to a non-numeric type")
    k = cls._kind
    if k == "f":
        if x._kind == "b":
            if x.sym:
                return _mk(cls, z3.If(x.v, z3.RealVal(1), z3.RealVal(0)))
            return _mk(cls, float(x.v))
        lim = _FLOAT_OVERFLOW.get(cls._name)
        if x.sym:
            v = x.v if x.v.sort() == z3.RealSort() else z3.ToReal(x.v)
            if lim is not None and type(x)._name != cls._name and core.active():
                # narrowing to float16 / float32: magnitudes beyond the type's range become +-inf (rounding inside the range is not modelled)
                ex = core.cur()
                if ex.branch(v >= lim):
                    return _mk(cls, INF)
                if ex.branch(v <= -lim):
                    return _mk(cls, -INF)
            return _mk(cls, v, x.nan)
        f = float(x.v)
        if lim is not None and math.isfinite(f) and abs(f) >= lim:
            f = INF if f > 0 else -INF
        return _mk(cls, f)
    if k == "i":
        if x._kind == "b":
            if x.sym:
                return _mk(cls, z3.If(x.v, z3.IntVal(1), z3.IntVal(0)))
            return _mk(cls, int(x.v))
        if x._kind == "i":
            return _mk(cls, _wrap_int(x.v, cls))
        # float -> int: truncation toward zero, NaN refuses
        if x.nan is not None:
            if core.cur().branch(x.nan):
                raise ValueError("cannot convert float NaN to integer")
        if x.sym:
            return _mk(cls, _wrap_int(z3.If(x.v >= 0, z3.ToInt(x.v), -z3.ToInt(-x.v)), cls))
        sp = _conc_special(x)
        if sp == "nan":
            raise ValueError("cannot convert float NaN to integer")
        if sp:
            raise OverflowError("cannot convert float infinity to integer")
        return _mk(cls, _wrap_int(int(x.v), cls))
    if k == "b":
        r = x != 0
        if isinstance(r, bool):
            return _mk(bool_, r)
        return r
    raise TypeError(f"cannot cast to {cls}")


# ----------------------------------------------------------------------------- arithmetic
def _known_nonzero(t):
    ex = core.cur()
    known = getattr(ex, "_nz", None)
    if known is None or getattr(ex, "_nz_path", None) is not ex.pc:
        ex._nz = known = set()
        ex._nz_path = ex.pc
    return known


def _foreign(a, b, f):
    """numpy scalar (op) foreign object: numpy's deferral rules, else convert the object through __array__."""
    if not isinstance(a, generic) or type(a)._py or isinstance(b, generic):
        return NotImplemented
    tb = type(b)
    if hasattr(tb, "__array_ufunc__"):
        if tb.__array_ufunc__ is None:
            return NotImplemented
    elif getattr(b, "__array_priority__", -1000000.0) > -1000000.0:
        return NotImplemented
    if hasattr(b, "__array__") and not isinstance(b, type):
        from .arrays import asarray

        return f(a, asarray(b.__array__()))
    return NotImplemented


_PYOPS = {"add": lambda x, y: x + y, "sub": lambda x, y: x - y, "mul": lambda x, y: x * y, "div": lambda x, y: x / y,
          "floordiv": lambda x, y: x // y, "mod": lambda x, y: x % y}


def _any_fp(*xs):
    return builtins.any(getattr(type(x), "_fp", False) for x in xs)


def _arith(a, b, op):
    a0, b0 = a, b
    if _any_fp(a, b):
        from . import fp

        if wrap(a) is None or wrap(b) is None:
            return NotImplemented
        return fp.arith(a, b, op)
    a, b = wrap(a), wrap(b)
    if a is not None and b is None and not hasattr(b0, "_buf"):
        return _foreign(a, b0, _PYOPS[op])
    if a is None or b is None:
        return NotImplemented
    cls = result_cls(type(a), type(b), op)
    if cls is bool_:
        return _logic(a, b, "or" if op == "add" else "and")
    k = cls._kind
    if a._kind == "b":
        a = cast_scalar(a, int64)
    if b._kind == "b":
        b = cast_scalar(b, int64)
    if not a.sym and not b.sym:
        r0 = _conc_arith(a.v, b.v, op, cls)
        if cls._name in _INT_BITS and isinstance(r0, int):
            r0 = _wrap_int(r0, cls)
        return _mk(cls, r0, None)
    # at least one symbolic
    spa, spb = (_conc_special(a) if not a.sym else None), (_conc_special(b) if not b.sym else None)
    nan = _or(a.nan, b.nan)
    if spa or spb:
        return _special_arith(a, b, op, cls, spa, spb, nan)
    ta, tb = term(a), term(b)
    if k == "f":
        if ta.sort() != z3.RealSort():
            ta = z3.ToReal(ta)
        if tb.sort() != z3.RealSort():
            tb = z3.ToReal(tb)
    if op == "add":
        r = ta + tb
    elif op == "sub":
        r = ta - tb
    elif op == "mul":
        r = ta * tb
    else:
        # division family: decide whether the divisor can be zero
        zero = _divisor_zero(b, tb)
        if zero:
            return _div_by_zero(a, ta, op, cls, nan)
        if op == "div":
            r = ta / tb
        elif k == "i":
            q = z3.If(tb > 0, ta / tb, (-ta) / (-tb))
            r = q if op == "floordiv" else ta - tb * q
        else:
            q = z3.ToReal(z3.ToInt(ta / tb))
            r = q if op == "floordiv" else ta - tb * q
    if cls._name in _INT_BITS:
        r = _wrap_int(r, cls)   # int16 / int32 arithmetic wraps around
    return _mk(cls, r, nan)


def _divisor_zero(b, tb):
    if not b.sym:
        return b.v == 0
    ex = core.cur()
    known = _known_nonzero(tb)
    key = tb.get_id()
    if key in known:
        return False
    z = ex.branch(tb == 0)
    if not z:
        known.add(key)
    return z


def _div_by_zero(a, ta, op, cls, nan):
    if cls._py or cls._kind == "i":
        if cls._py:
            raise ZeroDivisionError("division by zero")
        warnings.warn("divide by zero encountered", RuntimeWarning)
        return _mk(cls, 0)
    warnings.warn("divide by zero encountered", RuntimeWarning)
    if op != "div":
        return _mk(cls, NAN)
    if a.nan is not None and core.cur().branch(a.nan):
        return _mk(cls, NAN)
    if a.sym:
        ex = core.cur()
        if ex.branch(ta > 0):
            return _mk(cls, INF)
        if ex.branch(ta < 0):
            return _mk(cls, -INF)
        return _mk(cls, NAN)
    if a.v > 0:
        return _mk(cls, INF)
    if a.v < 0:
        return _mk(cls, -INF)
    return _mk(cls, NAN)


def _conc_arith(x, y, op, cls):
    k = cls._kind
    if k == "f":
        x, y = float(x), float(y)
    if op == "add":
        return x + y
    if op == "sub":
        return x - y
    if op == "mul":
        return x * y
    if y == 0:
        if cls._py:
            raise ZeroDivisionError("division by zero")
        warnings.warn("divide by zero encountered", RuntimeWarning)
        if k == "i":
            return 0
        if op != "div" or x == 0 or x != x:
            return NAN
        return INF if x > 0 else -INF
    if op == "div":
        return x / y
    if op == "floordiv":
        return x // y
    return x % y


def _special_arith(a, b, op, cls, spa, spb, nan):
    """One operand is a concrete nan/inf, the other symbolic."""
    if spa == "nan" or spb == "nan":
        return _mk(cls, NAN)
    ex = core.cur()
    s = a if not spa else b  # the symbolic one
    if s.nan is not None and ex.branch(s.nan):
        return _mk(cls, NAN)
    inf = INF if (spa or spb) == "inf" else -INF
    if op == "add":
        return _mk(cls, inf)
    if op == "sub":
        return _mk(cls, inf if spa else -inf)
    ts = term(s)
    if op == "mul":
        if ex.branch(ts > 0):
            return _mk(cls, inf)
        if ex.branch(ts < 0):
            return _mk(cls, -inf)
        return _mk(cls, NAN)
    if op == "div":
        if spb:  # finite / inf
            return _mk(cls, 0.0)
        if ex.branch(ts > 0):
            return _mk(cls, inf)
        if ex.branch(ts < 0):
            return _mk(cls, -inf)
        return _mk(cls, inf)  # inf / 0 -> inf (numpy, sign of zero not modelled)
    raise ShimUnsupported(f"{op} with infinite operand")


def _power(a, b):
    if _any_fp(a, b):
        if isinstance(b, int) and 0 < b <= 3:
            r = a
            for _ in range(b - 1):
                r = r * a
            return r
        raise ShimUnsupported("FP-mode power")
    a, b = wrap(a), wrap(b)
    if a is None or b is None:
        return NotImplemented
    if not a.sym and not b.sym and a.nan is None and b.nan is None:
        cls = result_cls(type(a), type(b), "add")
        if cls is bool_:
            cls = int64
        try:
            r = a.v**b.v
        except ZeroDivisionError:
            r = INF
        if cls._kind == "i" and isinstance(r, float):
            cls = pyfloat if cls._py else float64
        return _mk(cls, r)
    if not b.sym:
        e = b.v
        if isinstance(e, float) and e.is_integer():
            e_int = int(e)
            cls = result_cls(type(a), type(b), "add")
        elif isinstance(e, int):
            e_int = e
            cls = result_cls(type(a), type(b), "add")
        else:
            e_int = None
        if e_int is not None and 0 <= e_int <= 4:
            r = wrap(1)
            for _ in range(e_int):
                r = r * a
            return cast_scalar(r, cls) if not isinstance(r, cls) else r
        if e_int is not None and -2 <= e_int < 0:
            return 1.0 / _power(a, -e_int)
        from . import transcend

        return transcend.power(a, b)
    from . import transcend

    return transcend.power(a, b)


def _round(x, decimals=0):
    if decimals:
        if not x.sym:
            return _mk(type(x), builtins.round(x.v, decimals))
        raise ShimUnsupported("round(decimals != 0) on a symbolic value")
    if x._kind != "f":
        return x
    if not x.sym:
        sp = _conc_special(x)
        if sp:
            return x
        return _mk(type(x), float(builtins.round(x.v)))
    t = x.v + z3.Q(1, 2)
    r = z3.ToInt(t)
    r = z3.If(z3.And(z3.ToReal(r) == t, r % 2 != 0), r - 1, r)  # half to even
    return _mk(type(x), z3.ToReal(r), x.nan)


# ----------------------------------------------------------------------------- comparisons
_OPS = {
    "lt": lambda x, y: x < y,
    "le": lambda x, y: x <= y,
    "gt": lambda x, y: x > y,
    "ge": lambda x, y: x >= y,
    "eq": lambda x, y: x == y,
    "ne": lambda x, y: x != y,
}


def _compare(a, b, op):
    if b is None or isinstance(b, (str, tuple, list, dict, slice, type)) or b is Ellipsis:
        if op == "eq":
            return False
        if op == "ne":
            return True
        return NotImplemented
    if _any_fp(a, b):
        from . import fp

        if wrap(a) is None or wrap(b) is None:
            return NotImplemented
        return fp.compare(a, b, op)
    a, b = wrap(a), wrap(b)
    if a is None or b is None:
        return NotImplemented
    if a._kind == "b" and b._kind == "b" and (a.sym or b.sym):
        ta, tb = term(a), term(b)
        if op == "eq":
            return _mk(bool_, ta == tb)
        if op == "ne":
            return _mk(bool_, ta != tb)
    if a._kind == "b":
        a = cast_scalar(a, int64)
    if b._kind == "b":
        b = cast_scalar(b, int64)
    if not a.sym and not b.sym:
        return _OPS[op](a.v, b.v)
    spa = _conc_special(a) if not a.sym else None
    spb = _conc_special(b) if not b.sym else None
    if spa == "nan" or spb == "nan":
        return op == "ne"
    nan = _or(a.nan, b.nan)
    if spa or spb:
        # symbolic finite value against +-inf
        if spb:
            big = spb == "inf"
            res = {"lt": big, "le": big, "gt": not big, "ge": not big, "eq": False, "ne": True}[op]
        else:
            big = spa == "inf"
            res = {"lt": not big, "le": not big, "gt": big, "ge": big, "eq": False, "ne": True}[op]
        if nan is None:
            return res
        if op == "ne":
            return True
        return _mk(bool_, z3.Not(nan)) if res else False
    r = _OPS[op](term(a), term(b))
    if nan is not None:
        r = z3.Or(nan, r) if op == "ne" else z3.And(z3.Not(nan), r)
    r = z3.simplify(r)
    if z3.is_true(r):
        return True
    if z3.is_false(r):
        return False
    return _mk(bool_, r)


def _logic(a, b, op):
    a, b = wrap(a), wrap(b)
    if a is None or b is None:
        return NotImplemented
    if a._kind != "b" or b._kind != "b":
        if not a.sym and not b.sym and a._kind == "i" and b._kind == "i":
            f = {"and": lambda x, y: x & y, "or": lambda x, y: x | y, "xor": lambda x, y: x ^ y}[op]
            return _mk(result_cls(type(a), type(b)), f(int(a.v), int(b.v)))
        raise ShimUnsupported("bitwise logic on symbolic integers")
    if not a.sym and not b.sym:
        return {"and": a.v and b.v, "or": a.v or b.v, "xor": a.v != b.v}[op]
    # short cuts with a concrete side
    for x, y in ((a, b), (b, a)):
        if not x.sym:
            if op == "and":
                return y if x.v else False
            if op == "or":
                return True if x.v else y
            return y if not x.v else _mk(bool_, z3.Not(y.v))
    f = {"and": z3.And, "or": z3.Or, "xor": z3.Xor}[op]
    return _mk(bool_, f(a.v, b.v))


def bool_term(x):
    if isinstance(x, generic):
        if x._kind == "b":
            return x.v if x.sym else z3.BoolVal(x.v)
        return bool_term(x != 0)
    return z3.BoolVal(bool(x))


def ite(cond, x, y):
    """Merged selection (no fork when both alternatives are finite)."""
    if isinstance(cond, bool):
        return x if cond else y
    if isinstance(cond, generic) and not cond.sym:
        return x if cond.v else y
    c = bool_term(cond)
    if _any_fp(x, y):
        from . import fp

        return fp.ite(c, x, y)
    xs, ys = wrap(x), wrap(y)
    if xs is None or ys is None:
        return x if core.cur().branch(c) else y
    if xs._kind == "b" and ys._kind == "b":
        return _mk(bool_, z3.If(c, term(xs), term(ys)))
    cls = result_cls(type(xs), type(ys))
    if (not xs.sym and _conc_special(xs)) or (not ys.sym and _conc_special(ys)):
        return x if core.cur().branch(c) else y
    tx, ty = term(xs), term(ys)
    if cls._kind == "f":
        if tx.sort() != z3.RealSort():
            tx = z3.ToReal(tx)
        if ty.sort() != z3.RealSort():
            ty = z3.ToReal(ty)
    nan = None
    if xs.nan is not None or ys.nan is not None:
        nan = z3.If(c, nan_term(xs), nan_term(ys))
    return _mk(cls, z3.If(c, tx, ty), nan)


# ----------------------------------------------------------------------------- shadows of builtins
def py_float(x=0.0):
    if getattr(type(x), "_fp", False):
        return x
    if isinstance(x, generic):
        if x.sym or x.nan is not None:
            return cast_scalar(x, pyfloat)
        return float(x.v)
    if hasattr(x, "_buf"):
        if x.size != 1:
            raise TypeError("only length-1 arrays can be converted to Python scalars")
        return py_float(x._first())
    return float(x)


def py_int(x=0, *a):
    if getattr(type(x), "_fp", False):
        from . import fp

        return fp.trunc(x)
    if isinstance(x, generic):
        if x.sym or x.nan is not None:
            return cast_scalar(x, pyint)
        sp = _conc_special(x)
        if sp == "nan":
            raise ValueError("cannot convert float NaN to integer")
        if sp:
            raise OverflowError("cannot convert float infinity to integer")
        return int(x.v)
    if hasattr(x, "_buf"):
        if x.size != 1:
            raise TypeError("only length-1 arrays can be converted to Python scalars")
        return py_int(x._first())
    return int(x, *a)


py_float.__name__ = "float"
py_int.__name__ = "int"


def _flatten_classinfo(ci):
    if isinstance(ci, tuple):
        for c in ci:
            yield from _flatten_classinfo(c)
    else:
        yield ci


def py_isinstance(obj, classinfo):
    if getattr(type(obj), "_fp", False):
        # an FP-mode value stands for a Python float / numpy float64 (or an int computed from one)
        for c in _flatten_classinfo(classinfo):
            if c in (int, py_int, float, py_float, numbers.Number, numbers.Real, numbers.Integral) or (isinstance(c, type) and isinstance(obj, c)):
                return True
        return False
    if isinstance(obj, generic):
        for c in _flatten_classinfo(classinfo):
            if c is int or c is py_int:
                if isinstance(obj, pyint):
                    return True
            elif c is float or c is py_float:
                if isinstance(obj, (pyfloat, float64)):
                    return True
            elif c is bool:
                continue
            elif c is numbers.Number:
                return True
            elif c in (numbers.Real, numbers.Complex):
                if obj._kind in "if":
                    return True
            elif c in (numbers.Integral, numbers.Rational):
                if obj._kind == "i":
                    return True
            elif isinstance(c, type) and isinstance(obj, c):
                return True
        return False
    ci = tuple(
        (int if c is py_int else float if c is py_float else c) for c in _flatten_classinfo(classinfo)
    )
    return isinstance(obj, ci)


def _has_sym(items):
    return builtins.any(isinstance(i, generic) and (i.sym or i.nan is not None) for i in items)


def nan_of(x):
    return None


def _minmax(args, key, default, is_min, orig):
    if key is not None:
        return orig(*args, key=key) if default is _NODEF else orig(*args, key=key, default=default)
    if len(args) == 1:
        items = list(args[0])
    else:
        items = list(args)
    if not items:
        if default is _NODEF:
            raise ValueError("min() arg is an empty sequence" if is_min else "max() arg is an empty sequence")
        return default
    if not _has_sym(items):
        items = [i.v if isinstance(i, generic) and type(i)._py else i for i in items]
        return orig(items)
    r = items[0]
    for x in items[1:]:
        c = (x < r) if is_min else (x > r)
        r = ite(c, x, r)
    return r


_NODEF = object()


def py_min(*args, key=None, default=_NODEF):
    return _minmax(args, key, default, True, builtins.min)


def py_max(*args, key=None, default=_NODEF):
    return _minmax(args, key, default, False, builtins.max)


def py_round(x, n=None):
    if isinstance(x, generic):
        return x.__round__(n)
    return builtins.round(x, n) if n is not None else builtins.round(x)


def py_abs(x):
    return abs(x)


SHADOWS = {
    "float": py_float,
    "int": py_int,
    "isinstance": py_isinstance,
    "min": py_min,
    "max": py_max,
    "round": py_round,
}
