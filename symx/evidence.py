"""symx.evidence - write evidence/<id>.json (schema /root/.vp/EVIDENCE.schema.json) from what this run covered."""
from __future__ import annotations

import json
import os

ROOT = os.path.dirname(os.path.dirname(os.path.abspath(__file__)))


def write(prop, tier, seed, results, harnesses, agg):
    paths = sum(r["paths"] for r in results)
    decisions = sum(r.get("decisions", 0) for r in results)
    samples = []
    for r in results:
        for s in r.get("samples", [])[:1]:
            samples.append({"instance": r["instance"], **s})
        if len(samples) >= 6:
            break
    labels = {}
    outcomes = {}
    for r in results:
        for k, v in r["labels"].items():
            labels[k] = labels.get(k, 0) + v
        for k, v in r["outcomes"].items():
            outcomes[k] = outcomes.get(k, 0) + v
    cov = {
        "states": max(paths, 0),
        "transitions": max(decisions, 0),
        "traces_validated_against_impl": agg["validated"],
        "samples": samples or [{"note": "no path completed"}],
        "exhaustive": False,
        "explanation": "states = completed symbolic paths through the real physt code (each path's obligations decided by z3 for ALL "
                       "values of the symbolic inputs on that path); transitions = branch decisions taken; "
                       "traces_validated_against_impl = per-path solver witnesses replayed on the real library (real numpy) whose "
                       "observables agreed with the model's",
        "instances": len(results),
        "instance_bounds": [{"instance": r["instance"], "paths": r["paths"], "wall_s": r.get("wall_s")} for r in results][:400],
        "bounds": [{"group": h.group, "doc": h.bounds_doc} for h in harnesses],
        "obligations_checked": labels,
        "path_outcomes": outcomes,
        "queries": agg["queries"],
        "solver_s": round(sum(r.get("solver_s", 0) for r in results), 2),
        "functions_encoded": agg["functions"],
        "witnesses_skipped_inexact": agg["unvalidated"],
        "divergences": agg["divergences"],
        "inconclusive": agg["inconclusive"],
        "counterexamples_only_at_non_binary64_reals": agg.get("real_only", []),
        "known_findings_suppressed_paths": agg["suppressed"],
        "known_findings_confirmed": agg["known_confirmed"],
        "stubs": sorted({s for h in harnesses for s in h.stubs}),
    }
    assumptions = [
        "R-mode: floats are exact reals with a NaN flag; float rounding/summation order is outside the claim",
        "numpy is replaced by the model symx.symnp (validated by selftest and by per-path witness replay on real numpy)",
        "bounded: only the enumerated instance sizes are covered (see coverage.bounds / instance_bounds)",
    ]
    for h in harnesses:
        assumptions.extend(h.assumptions_doc)
    ev = {
        "property_id": prop, "tier": tier, "seed": seed, "level": "model_checking", "coverage": cov,
        "assumptions": assumptions, "wall_s": round(agg["wall"], 2), "violations": agg["violations"],
    }
    os.makedirs(os.path.join(ROOT, "evidence"), exist_ok=True)
    with open(os.path.join(ROOT, "evidence", f"{prop}.json"), "w") as f:
        json.dump(ev, f, indent=1, default=str)
