"""symx.core - path explorer: deterministic re-execution (DFS over branch decisions) over z3.

The code under test is ordinary Python (the real physt modules).  Its numeric values are
`symx.symnp` scalars that may carry z3 terms; whenever Python needs a concrete truth value
(`bool()` of a symbolic condition) or a concrete integer (`__index__`) the scalar calls
`Explorer.branch` / `Explorer.choose_int`, which decides the way to go, records the
decision in the trace and queues the alternative(s) for a later re-execution.
"""
from __future__ import annotations

import time
from fractions import Fraction

import sys

import z3

sys.set_int_max_str_digits(0)


class PathAbort(BaseException):
    """Current path is infeasible (internal control flow; never caught by harness code)."""


class Inconclusive(BaseException):
    """The engine cannot decide (unsupported numpy entry point, solver unknown, caps)."""

    def __init__(self, reason):
        super().__init__(reason)
        self.reason = reason


class ShimUnsupported(Inconclusive):
    pass


class EngineError(BaseException):
    pass


_cur = None


def cur() -> "Explorer":
    if _cur is None:
        raise EngineError("symbolic value used outside of an exploration")
    return _cur


def active() -> bool:
    return _cur is not None


def frac_of(val) -> Fraction:
    """z3 numeral -> Fraction."""
    if z3.is_int_value(val):
        return Fraction(val.as_long())
    if z3.is_rational_value(val):
        return Fraction(val.numerator_as_long(), val.denominator_as_long())
    if z3.is_algebraic_value(val):
        a = val.approx(30)
        return Fraction(a.numerator_as_long(), a.denominator_as_long())
    raise EngineError(f"not a numeral: {val}")


class Explorer:
    """One exploration of one harness instance."""

    def __init__(self, *, query_timeout_ms=20000, path_cap=200000, seed=0, wall_cap_s=None):
        self.solver = z3.Solver()
        self.solver.set("timeout", query_timeout_ms)
        if seed:
            self.solver.set("random_seed", seed)
        self.query_timeout_ms = query_timeout_ms
        self.path_cap = path_cap
        self.wall_cap_s = wall_cap_s
        self.worklist = [[]]
        self.n_paths = 0
        self.n_aborted = 0
        self.n_decisions = 0
        self.queries = {"sat": 0, "unsat": 0, "unknown": 0}
        self.solver_s = 0.0
        self.prefix = []
        self.pos = 0
        self.trace = []
        self.model = None
        self._fresh = 0
        self.pc = []  # list of asserted formulas on the current path (for substitution checks)

    # ------------------------------------------------------------------ solver access
    def check(self, *extra) -> str:
        t0 = time.time()
        self._fallback_model = None
        r = str(self.solver.check(*extra))
        if r == "unknown":
            # one retry on a fresh solver (different seed, 3x the time): z3's verdicts on nonlinear paths are timing-sensitive
            s2 = z3.Solver()
            s2.set("timeout", self.query_timeout_ms * 3)
            s2.set("random_seed", 7)
            s2.add(self.solver.assertions())
            r = str(s2.check(*extra))
            self.queries["retried"] = self.queries.get("retried", 0) + 1
            if r == "sat":
                self._fallback_model = s2.model()
        self.solver_s += time.time() - t0
        self.queries[r] = self.queries.get(r, 0) + 1
        return r

    def last_model(self):
        return self._fallback_model if self._fallback_model is not None else self.solver.model()

    def add(self, expr):
        self.solver.add(expr)
        self.pc.append(expr)

    def fresh_name(self, base):
        self._fresh += 1
        return f"{base}!{self._fresh}"

    def _model_says(self, expr):
        if self.model is None:
            return None
        v = self.model.eval(expr, model_completion=True)
        if z3.is_true(v):
            return True
        if z3.is_false(v):
            return False
        return None

    # ------------------------------------------------------------------ decisions
    def branch(self, expr) -> bool:
        """Decide a symbolic condition.  Both sides are explored (this one now, the other later)."""
        if isinstance(expr, bool):
            return expr
        expr = z3.simplify(expr)
        if z3.is_true(expr):
            return True
        if z3.is_false(expr):
            return False
        self.n_decisions += 1
        if self.pos < len(self.prefix):
            d = self.prefix[self.pos]
            if not isinstance(d, bool):
                raise EngineError("trace desynchronised (expected boolean decision)")
            self.pos += 1
            self.trace.append(d)
            self.add(expr if d else z3.Not(expr))
            self.model = None
            return d
        self.pos += 1
        guess = self._model_says(expr)
        if guess is None:
            r = self.check(expr)
            if r == "sat":
                self.model = self.last_model()
                guess = True
            elif r == "unsat":
                r2 = self.check(z3.Not(expr))
                if r2 == "sat":
                    self.model = self.last_model()
                    self.trace.append(False)
                    self.add(z3.Not(expr))
                    return False
                if r2 == "unsat":
                    raise PathAbort()
                raise Inconclusive("solver unknown on branch feasibility")
            else:
                raise Inconclusive("solver unknown on branch feasibility")
        other = z3.Not(expr) if guess else expr
        r = self.check(other)
        if r == "sat":
            self.worklist.append(self.trace + [not guess])
        elif r != "unsat":
            raise Inconclusive("solver unknown on branch feasibility")
        self.trace.append(guess)
        self.add(expr if guess else z3.Not(expr))
        return guess

    def choose_int(self, term, cap=160) -> int:
        """Concretise a symbolic integer: fork over all its feasible values (bounded)."""
        term = z3.simplify(term)
        if z3.is_int_value(term):
            return term.as_long()
        return self.choose_value(term, lambda v: v.as_long(), lambda t, k: t == k, cap)

    def choose_value(self, term, to_py, eq, cap=40):
        """Fork over all feasible values of `term` (enumerated with the solver); `eq(term, value)` builds the pin."""
        self.n_decisions += 1
        if self.pos < len(self.prefix):
            d = self.prefix[self.pos]
            if not (isinstance(d, tuple) and d[0] == "v"):
                raise EngineError("trace desynchronised (expected value decision)")
            self.pos += 1
            self.trace.append(d)
            self.add(eq(term, d[1]))
            self.model = None
            return d[1]
        self.pos += 1
        vals = []
        if self.model is not None:
            v0 = to_py(self.model.eval(term, model_completion=True))
            if v0 is not None:
                vals.append(v0)
        while True:
            cons = [z3.Not(eq(term, v)) for v in vals]
            r = self.check(*cons)
            if r == "unsat":
                break
            if r != "sat":
                raise Inconclusive("solver unknown while concretising a value")
            v = to_py(self.last_model().eval(term, model_completion=True))
            if v is None:
                raise Inconclusive("value without a concrete model")
            vals.append(v)
            if len(vals) > cap:
                raise Inconclusive(f"symbolic value with more than {cap} feasible values: {term}")
        if not vals:
            raise PathAbort()
        vals.sort()
        for v in vals[1:]:
            self.worklist.append(self.trace + [("v", v)])
        d = ("v", vals[0])
        self.trace.append(d)
        self.add(eq(term, vals[0]))
        self.model = None
        return vals[0]

    def assume(self, expr):
        if isinstance(expr, bool):
            if not expr:
                raise PathAbort()
            return
        self.add(expr)
        if self._model_says(expr) is not True:
            self.model = None

    # ------------------------------------------------------------------ exploration loop
    def explore(self, run_path, on_path):
        """run_path() executes the harness once; on_path(result) is called per completed path.

        Returns a status string: 'done', 'path_cap', 'wall_cap'."""
        global _cur
        t0 = time.time()
        status = "done"
        while self.worklist:
            if self.n_paths >= self.path_cap:
                status = "path_cap"
                break
            if self.wall_cap_s and time.time() - t0 > self.wall_cap_s:
                status = "wall_cap"
                break
            self.prefix = self.worklist.pop()
            self.pos = 0
            self.trace = []
            self.model = None
            self._fresh = 0
            self.pc = []
            self.solver.push()
            _cur = self
            try:
                try:
                    res = run_path()
                except PathAbort:
                    self.n_aborted += 1
                    continue
                self.n_paths += 1
                try:
                    on_path(res)
                except PathAbort:
                    self.n_aborted += 1
                    continue
                if self.pos < len(self.prefix):
                    raise EngineError("trace desynchronised (prefix not consumed)")
            finally:
                _cur = None
                self.solver.pop()
        return status
