"""symx.transcend - transcendental functions in R-mode.

Concrete arguments use `math`.  Symbolic arguments never reach the solver as such:
  sqrt, hypot  : exact algebraic definition (r >= 0 and r*r == ...)
  arctan2, cos, sin, log*, exp*: uninterpreted functions constrained by *sound* axioms
  instantiated on the terms that occur on the current path (ranges, monotonicity, anchors).
Anything proved holds for the true functions; counterexamples are only reported if they replay.
"""
from __future__ import annotations

import math
import warnings

import z3

from . import core
from . import scalars as S
from .core import ShimUnsupported
from .scalars import _mk, cast_scalar, term, wrap

R = z3.RealSort()
PI = S.lift_num(math.pi)
HALF_PI = S.lift_num(math.pi / 2)
_UF = {
    "sqrt": z3.Function("sqrt", R, R),
    "hypot": z3.Function("hypot", R, R, R),
    "atan2": z3.Function("atan2", R, R, R),
    "cos": z3.Function("cos", R, R),
    "sin": z3.Function("sin", R, R),
    "log": z3.Function("ln", R, R),
    "log2": z3.Function("log2", R, R),
    "log10": z3.Function("log10", R, R),
    "exp": z3.Function("exp", R, R),
    "exp10": z3.Function("exp10", R, R),
    "cbrt": z3.Function("cbrt", R, R),
    "arccos": z3.Function("arccos", R, R),
    "arcsin": z3.Function("arcsin", R, R),
    "arctan": z3.Function("arctan", R, R),
}
LOG10_ANCHORS = range(-9, 10)
LOG2_ANCHORS = range(0, 13)


def _registry():
    ex = core.cur()
    if getattr(ex, "_uf_path", None) is not ex.pc:
        ex._uf_path = ex.pc
        ex._uf_seen = {}
    return ex, ex._uf_seen


def _apply(name, *args):
    """Apply the UF; returns (term, is_new, previous argument tuples)."""
    ex, seen = _registry()
    t = _UF[name](*args)
    key = (name, tuple(a.get_id() for a in args))
    lst = seen.setdefault(name, [])
    ids = seen.setdefault(name + "#ids", set())
    new = key not in ids
    prev = list(lst)
    if new:
        ids.add(key)
        lst.append(args)
    return ex, t, new, prev


def _real(x):
    t = term(x)
    return t if t.sort() == R else z3.ToReal(t)


def _fnan(x):
    """Fork on the NaN flag; returns True if x is NaN on this path."""
    if x.nan is not None:
        return core.cur().branch(x.nan)
    return (not x.sym) and x.v != x.v


def sqrt(x):
    if not x.sym:
        if x.v != x.v:
            return x
        if x.v < 0:
            warnings.warn("invalid value encountered in sqrt", RuntimeWarning)
            return _mk(type(x), S.NAN)
        return _mk(type(x), math.sqrt(x.v))
    if _fnan(x):
        return _mk(type(x), S.NAN)
    if core.cur().branch(x.v < 0):
        warnings.warn("invalid value encountered in sqrt", RuntimeWarning)
        return _mk(type(x), S.NAN)
    ex, t, new, _ = _apply("sqrt", x.v)
    if new:
        ex.add(z3.And(t >= 0, t * t == x.v))
    return _mk(type(x), t)


def hypot(x, y):
    if not x.sym and not y.sym:
        return _mk(S.float64, math.hypot(x.v, y.v))
    if _fnan(x) or _fnan(y):
        return _mk(S.float64, S.NAN)
    a, b = _real(x), _real(y)
    ex, t, new, _ = _apply("hypot", a, b)
    if new:
        ex.add(z3.And(t >= 0, t * t == a * a + b * b))
    return _mk(S.float64, t)


def arctan2(y, x):
    if not x.sym and not y.sym:
        return _mk(S.float64, math.atan2(y.v, x.v))
    if _fnan(x) or _fnan(y):
        return _mk(S.float64, S.NAN)
    if not y.sym and y.v == 0 and math.copysign(1.0, float(y.v)) < 0:
        # IEEE signed zero: atan2(-0.0, x) is -pi for x < 0 and -0.0 otherwise (a symbolic x that is zero is taken as +0.0)
        return _mk(S.float64, z3.If(_real(x) < 0, -PI, z3.RealVal(0)))
    b, a = _real(y), _real(x)
    ex, t, new, _ = _apply("atan2", b, a)
    if new:
        ex.add(z3.And(
            t > -PI, t <= PI,
            z3.Implies(b > 0, z3.And(t > 0, t < PI)),
            z3.Implies(b < 0, z3.And(t < 0, t > -PI)),
            z3.Implies(z3.And(b == 0, a >= 0), t == 0),
            z3.Implies(z3.And(b == 0, a < 0), t == PI),
            z3.Implies(a > 0, z3.And(t > -HALF_PI, t < HALF_PI)),
            z3.Implies(z3.And(a == 0, b > 0), t == HALF_PI),
            z3.Implies(z3.And(a == 0, b < 0), t == -HALF_PI),
            z3.Implies(z3.And(a < 0, b >= 0), t > HALF_PI),
            z3.Implies(z3.And(a < 0, b < 0), t < -HALF_PI),
        ))
    return _mk(S.float64, t)


def cos(x):
    if not x.sym:
        return _mk(type(x), math.cos(x.v))
    if _fnan(x):
        return _mk(type(x), S.NAN)
    ex, t, new, prev = _apply("cos", x.v)
    if new:
        c_half = S.lift_num(math.cos(math.pi / 2))
        ax = [t >= -1, t <= 1, z3.Implies(x.v == 0, t == 1), z3.Implies(x.v == PI, t == -1),
              z3.Implies(x.v == HALF_PI, t == c_half),
              z3.Implies(z3.And(x.v > 0, x.v <= PI), t < 1), z3.Implies(z3.And(x.v >= 0, x.v < PI), t > -1),
              z3.Implies(z3.And(x.v >= 0, x.v < HALF_PI), t > c_half), z3.Implies(z3.And(x.v > HALF_PI, x.v <= PI), t < c_half)]
        for (p,) in prev:
            tp = _UF["cos"](p)
            ax.append(z3.Implies(z3.And(0 <= p, p < x.v, x.v <= PI), tp > t))
            ax.append(z3.Implies(z3.And(0 <= x.v, x.v < p, p <= PI), t > tp))
        ex.add(z3.And(ax))
    return _mk(type(x), t)


def sin(x):
    if not x.sym:
        return _mk(type(x), math.sin(x.v))
    if _fnan(x):
        return _mk(type(x), S.NAN)
    ex, t, new, prev = _apply("sin", x.v)
    if new:
        ex.add(z3.And(t >= -1, t <= 1, z3.Implies(x.v == 0, t == 0)))
    return _mk(type(x), t)


def _inverse_trig(name):
    """arccos / arcsin / arctan as uninterpreted functions: range, anchors, monotonicity against earlier applications; NaN outside [-1, 1]."""
    lo, hi = {"arccos": (0, PI), "arcsin": (-HALF_PI, HALF_PI), "arctan": (-HALF_PI, HALF_PI)}[name]
    fn = {"arccos": math.acos, "arcsin": math.asin, "arctan": math.atan}[name]

    def f(x):
        if not x.sym:
            if x.v != x.v or (name != "arctan" and not -1 <= x.v <= 1):
                return _mk(type(x), S.NAN)
            return _mk(type(x), fn(x.v))
        if _fnan(x):
            return _mk(type(x), S.NAN)
        ex = __import__("symx.core", fromlist=["cur"]).cur()
        if name != "arctan" and not ex.branch(z3.And(x.v >= -1, x.v <= 1)):
            warnings.warn("invalid value encountered in " + name, RuntimeWarning)
            return _mk(type(x), S.NAN)
        ex, t, new, prev = _apply(name, x.v)
        if new:
            ax = [t >= lo, t <= hi]
            if name == "arccos":
                ax += [z3.Implies(x.v == 1, t == 0), z3.Implies(x.v == -1, t == PI), z3.Implies(x.v == 0, t == HALF_PI), z3.Implies(x.v < 1, t > 0), z3.Implies(x.v > -1, t < PI)]
            else:
                ax += [z3.Implies(x.v == 0, t == 0), z3.Implies(x.v > 0, t > 0), z3.Implies(x.v < 0, t < 0)]
                if name == "arcsin":
                    ax += [z3.Implies(x.v == 1, t == HALF_PI), z3.Implies(x.v == -1, t == -HALF_PI)]
            for (p,) in prev:
                tp = _UF[name](p)
                if name == "arccos":
                    ax += [z3.Implies(p < x.v, tp > t), z3.Implies(p > x.v, tp < t)]
                else:
                    ax += [z3.Implies(p < x.v, tp < t), z3.Implies(p > x.v, tp > t)]
            ex.add(z3.And(ax))
        return _mk(type(x), t)

    f.__name__ = name
    return f


arccos = _inverse_trig("arccos")
arcsin = _inverse_trig("arcsin")
arctan = _inverse_trig("arctan")


def _log_family(name, base, anchors):
    def f(x):
        if not x.sym:
            if x.v != x.v:
                return x
            if x.v <= 0:
                warnings.warn("divide by zero / invalid value encountered in log", RuntimeWarning)
                return _mk(type(x), -S.INF if x.v == 0 else S.NAN)
            v = {"log": math.log, "log2": math.log2, "log10": math.log10}[name](x.v)
            return _mk(type(x), v)
        if _fnan(x):
            return _mk(type(x), S.NAN)
        ex = core.cur()
        if ex.branch(x.v <= 0):
            if ex.branch(x.v == 0):
                return _mk(type(x), -S.INF)
            return _mk(type(x), S.NAN)
        ex, t, new, prev = _apply(name, x.v)
        if new:
            ax = [(t >= 0) == (x.v >= 1), (t == 0) == (x.v == 1)]
            for k in anchors:
                bk = S.lift_num(float(base) ** k) if k < 0 else z3.RealVal(base**k)
                if k < 0:
                    from fractions import Fraction

                    bk = S.lift_num(Fraction(1, base ** (-k)))
                ax.append((t >= k) == (x.v >= bk))
                ax.append((t == k) == (x.v == bk))
            for (p,) in prev + [(x.v,)]:
                tp = _UF[name](p)
                if p is not x.v:
                    ax.append((p < x.v) == (tp < t))
                    ax.append((p == x.v) == (tp == t))
                # log a + log b  vs  a*b
                ax.append((tp + t >= 0) == (p * x.v >= 1))
                ax.append((tp + t == 0) == (p * x.v == 1))
            ex.add(z3.And(ax))
        return _mk(type(x), t)

    return f


log = _log_family("log", math.e, [])
log2 = _log_family("log2", 2, LOG2_ANCHORS)
log10 = _log_family("log10", 10, LOG10_ANCHORS)


def exp(x):
    if not x.sym:
        return _mk(type(x), math.exp(x.v))
    raise ShimUnsupported("exp of a symbolic value")


def _exp10(x):
    """10 ** x for symbolic real x (uninterpreted, monotone, inverse of log10 on seen terms)."""
    ex, t, new, prev = _apply("exp10", x)
    if new:
        ax = [t > 0, (x >= 0) == (t >= 1), (x == 0) == (t == 1)]
        for k in LOG10_ANCHORS:
            from fractions import Fraction

            bk = S.lift_num(Fraction(10) ** k)
            ax.append((x >= k) == (t >= bk))
            ax.append((x == k) == (t == bk))
        for (p,) in prev:
            tp = _UF["exp10"](p)
            ax.append((p < x) == (tp < t))
            ax.append((p == x) == (tp == t))
        # arithmetic progressions of exponents give geometric progressions of values: 10^p * 10^x = (10^q)^2 if p + x = 2q
        for (pp,) in prev:
            for (qq,) in prev:
                tp, tq = _UF["exp10"](pp), _UF["exp10"](qq)
                ax.append(z3.Implies(pp + x == 2 * qq, tp * t == tq * tq))
                ax.append(z3.Implies(pp + qq == 2 * x, tp * tq == t * t))
        # inverse of log10 on the terms seen so far
        _, seen = _registry()
        for (q,) in seen.get("log10", []):
            ax.append(z3.Implies(x == _UF["log10"](q), t == q))
        ex.add(z3.And(ax))
    return t


def power(a, b):
    """a ** b where at least one is symbolic and b is not a small integer constant."""
    cls = S.result_cls(type(a), type(b), "add")
    if cls._kind != "f":
        cls = S.pyfloat if cls._py else S.float64
    if not a.sym and a.nan is None:
        base = a.v
        if b._kind == "i":
            k = b.__index__()  # forks over the feasible integer exponents
            return _mk(cls, float(base) ** k)
        if base == 10 or base == 10.0:
            if _fnan(b):
                return _mk(cls, S.NAN)
            return _mk(cls, _exp10(_real(b)))
        raise ShimUnsupported(f"{base} ** symbolic real")
    if not b.sym:
        e = b.v
        if e == 0.5:
            return cast_scalar(sqrt(cast_scalar(a, S.float64)), cls)
        if isinstance(e, float) and abs(e - 1 / 3) < 1e-15:
            if _fnan(a):
                return _mk(cls, S.NAN)
            x = _real(a)
            ex, t, new, _ = _apply("cbrt", x)
            if new:
                ex.add(t * t * t == x)
            return _mk(cls, t)
    raise ShimUnsupported("general symbolic power")
