"""symx.runner - explore one harness instance symbolically; produce verdicts, witnesses, counterexamples."""
from __future__ import annotations

import fnmatch
import math
import time
import traceback
import warnings
from fractions import Fraction

import z3

from . import core
from . import scalars as S
from .api import Raised, ShapeMismatch, SymbolicWorld, exc_name
from .core import Explorer, Inconclusive, PathAbort


class Cx:
    """Declaration / oracle context of one path."""

    sym = True

    def __init__(self, ex: Explorer):
        self.ex = ex
        self.inputs = []  # (name, kind, var, nanvar)
        self.named = {}
        self.assumption_notes = []

    # -- declarations
    def _reg(self, name, kind, var, nanvar=None):
        self.inputs.append((name, kind, var, nanvar))

    def real(self, name, nan=False, cls=S.float64):
        v = z3.Real(name)
        nv = z3.Bool(name + ".nan") if nan else None
        self._reg(name, "real", v, nv)
        self.named[name] = v
        if nan:
            self.named[name + "_nan"] = nv
        return S._mk(cls, v, nv)

    def reals(self, name, n, nan=False, cls=S.float64):
        return [self.real(f"{name}{i}", nan, cls) for i in range(n)]

    def pyfloat(self, name):
        return self.real(name, False, S.pyfloat)

    def int(self, name, lo=None, hi=None, cls=S.int64):
        v = z3.Int(name)
        self._reg(name, "int", v)
        self.named[name] = v
        # symbolic integers are bounded (|.| <= 10**6 unless stated): they have to fit the integer dtypes of the real library
        self.ex.assume(v >= (lo if lo is not None else -10**6))
        self.ex.assume(v <= (hi if hi is not None else 10**6))
        return S._mk(cls, v)

    def ints(self, name, n, lo=None, hi=None, cls=S.int64):
        return [self.int(f"{name}{i}", lo, hi, cls) for i in range(n)]

    def pyint(self, name, lo=None, hi=None):
        return self.int(name, lo, hi, S.pyint)

    def fp(self, name, lo=None, hi=None):
        """binary64 input (FP-mode), finite, optionally bounded."""
        from . import fp as F

        v = z3.FP(name, F.FMT)
        self._reg(name, "fp", v)
        self.named[name] = v
        self.ex.assume(z3.And(z3.Not(z3.fpIsNaN(v)), z3.Not(z3.fpIsInf(v)), z3.Not(z3.fpIsSubnormal(v))))
        if lo is not None:
            self.ex.assume(z3.fpGEQ(v, z3.FPVal(float(lo), F.FMT)))
        if hi is not None:
            self.ex.assume(z3.fpLEQ(v, z3.FPVal(float(hi), F.FMT)))
        return F.mk(v)

    def bool(self, name):
        v = z3.Bool(name)
        self._reg(name, "bool", v)
        self.named[name] = v
        return S._mk(S.bool_, v)

    def concrete_int(self, x):
        """Concretise a (possibly symbolic) integer leaf on this path (forks over its feasible values)."""
        if isinstance(x, S.generic):
            return x.__index__()
        return int(x)

    def concrete_bool(self, x):
        return bool(x)

    def assume(self, *exprs):
        for e in exprs:
            if isinstance(e, S.generic):
                e = S.bool_term(e)
            self.ex.assume(e)

    def define(self, name, expr):
        """Name a predicate/term so that known-finding regions can refer to it."""
        if isinstance(expr, S.generic):
            expr = S.bool_term(expr) if expr._kind == "b" else S.term(expr)
        self.named[name] = expr
        return expr

    # -- terms for oracles
    @staticmethod
    def t(x):
        """z3 arithmetic term of a leaf (finite)."""
        if isinstance(x, z3.ExprRef):
            return x
        if hasattr(x, "_buf"):
            x = x._first()
        return S.term(x)

    @staticmethod
    def isnan(x):
        if isinstance(x, z3.ExprRef):
            return z3.BoolVal(False)
        if hasattr(x, "_buf"):
            x = x._first()
        return S.nan_term(x)

    @staticmethod
    def b(x):
        if isinstance(x, z3.ExprRef):
            return x
        return S.bool_term(x)

    @staticmethod
    def finite(x):
        """Python-level: leaf is a finite number (not None, not Raised, not concrete nan/inf)."""
        if isinstance(x, S.generic):
            return x.sym or not (isinstance(x.v, float) and not math.isfinite(x.v))
        if isinstance(x, bool):
            return True
        if isinstance(x, (int, float)):
            return math.isfinite(x)
        return False

    def eq(self, leaf, ref):
        """Obligation 'leaf equals the finite reference term ref' (a NaN / inf / missing leaf violates it)."""
        if isinstance(leaf, Raised) or leaf is None or not self.finite(leaf):
            return z3.BoolVal(False)
        r = self.t(leaf) == (ref if isinstance(ref, z3.ExprRef) else self.t(ref))
        n = self.isnan(leaf)
        if not z3.is_false(n):
            r = z3.And(z3.Not(n), r)
        return r

    def prod_eq(self, a, b, c):
        """Obligation a*b == c for leaves a, b (non-finite leaves violate it)."""
        if not self.finite(a) or not self.finite(b) or isinstance(a, Raised) or isinstance(b, Raised):
            return z3.BoolVal(False)
        r = self.t(a) * self.t(b) == (c if isinstance(c, z3.ExprRef) else self.t(c))
        for leaf in (a, b):
            n = self.isnan(leaf)
            if not z3.is_false(n):
                r = z3.And(z3.Not(n), r)
        return r

    def quot_eq(self, q, num, den):
        """Obligation q == num / den with den != 0 (q, den leaves; num a term)."""
        if not self.finite(q) or not self.finite(den) or isinstance(q, Raised) or isinstance(den, Raised):
            return z3.BoolVal(False)
        d = self.t(den)
        d = z3.ToReal(d) if d.sort() == z3.IntSort() else d
        n = z3.ToReal(num) if num.sort() == z3.IntSort() else num
        r = z3.And(d != 0, self.t(q) == n / d)
        for leaf in (q, den):
            nn = self.isnan(leaf)
            if not z3.is_false(nn):
                r = z3.And(z3.Not(nn), r)
        return r

    def approx(self, leaf, ref, rel=1e-12):
        """Obligation 'leaf equals ref up to a relative error' (used where a float literal such as 0.01 is not exact)."""
        if isinstance(leaf, Raised) or leaf is None or not self.finite(leaf):
            return z3.BoolVal(False)
        t = self.t(leaf)
        n, d = float(rel).as_integer_ratio()
        eps = z3.Q(n, d)
        dlt = t - ref
        mag = z3.If(ref >= 0, ref, -ref)
        r = z3.And(dlt <= eps * mag, -dlt <= eps * mag)
        nn = self.isnan(leaf)
        return r if z3.is_false(nn) else z3.And(z3.Not(nn), r)

    def is_nan_leaf(self, leaf):
        """Obligation 'leaf reads NaN'."""
        if isinstance(leaf, Raised) or leaf is None:
            return z3.BoolVal(False)
        return self.isnan(leaf)


# ----------------------------------------------------------------------------- leaf evaluation
def _has_uf(t, _cache={}):
    """Does the term contain an uninterpreted function application (arity > 0) or a path-local definitional constant?"""
    seen, stack = set(), [t]
    while stack:
        e = stack.pop()
        i = e.get_id()
        if i in seen:
            continue
        seen.add(i)
        if z3.is_app(e):
            d = e.decl()
            if d.kind() == z3.Z3_OP_UNINTERPRETED and d.arity() > 0:
                return True
            stack.extend(e.children())
    return False


def _pc_has_uf(ex):
    """Does the current path condition mention an uninterpreted function? (then a generic model's branch structure need not replay)"""
    n = len(ex.pc)
    cache = getattr(ex, "_pcuf", None)
    if cache is None or cache[0] is not ex.pc:
        cache = [ex.pc, 0, False]
        ex._pcuf = cache
    while cache[1] < n and not cache[2]:
        cache[2] = _has_uf(ex.pc[cache[1]])
        cache[1] += 1
    return cache[2]


def eval_leaf(model, x):
    """Leaf -> JSON value under the model.  Returns (value, exact) - exact False if UF-dependent."""
    if isinstance(x, Raised):
        return {"raised": x.name}, True
    if x is None or isinstance(x, (str, bool)):
        return x, True
    if isinstance(x, int):
        return x, True
    if isinstance(x, float):
        if x != x:
            return "nan", True
        if x in (math.inf, -math.inf):
            return ("inf" if x > 0 else "-inf"), True
        return x, True
    if getattr(type(x), "_fp", False):
        from . import fp as F

        f = F.to_float(model.eval(x.v, model_completion=True))
        if f is None:
            return "<fp?>", False
        return eval_leaf(model, f)
    if isinstance(x, S.generic):
        if not x.sym:
            if x.nan is not None and z3.is_true(model.eval(x.nan, model_completion=True)):
                return "nan", True
            return eval_leaf(model, x.v)
        if x._kind == "b":
            return z3.is_true(model.eval(x.v, model_completion=True)), not _has_uf(x.v)
        if x.nan is not None and z3.is_true(model.eval(x.nan, model_completion=True)):
            return "nan", True
        try:
            v = core.frac_of(z3.simplify(model.eval(x.v, model_completion=True)))
        except core.EngineError:
            # the model leaves an application of an uninterpreted function unevaluated: no concrete expectation for this leaf
            return "<uf?>", False
        exact = not _has_uf(x.v)
        return (int(v) if x._kind == "i" else float(v)), exact
    if hasattr(x, "_buf"):
        return eval_leaf(model, x.tolist())
    if isinstance(x, (list, tuple)):
        out, ok = [], True
        for i in x:
            v, e = eval_leaf(model, i)
            out.append(v)
            ok = ok and e
        return out, ok
    if isinstance(x, dict):
        out, ok = {}, True
        for k, i in x.items():
            v, e = eval_leaf(model, i)
            out[str(k)] = v
            ok = ok and e
        return out, ok
    if hasattr(x, "name") and hasattr(x, "kind") and hasattr(x, "type"):  # dtype
        return str(x), True
    if isinstance(x, type):
        return x.__name__, True
    return f"<{type(x).__name__}>", True


# ----------------------------------------------------------------------------- model -> concrete inputs
def _round_inputs(cx, model):
    """Inputs under the model, rounded to what the concrete twin can receive (floats / ints)."""
    vals, pins = {}, []
    for name, kind, var, nanvar in cx.inputs:
        if nanvar is not None and z3.is_true(model.eval(nanvar, model_completion=True)):
            vals[name] = "nan"
            pins.append(nanvar)
            continue
        if nanvar is not None:
            pins.append(z3.Not(nanvar))
        if kind == "fp":
            from . import fp as F

            f = F.to_float(model.eval(var, model_completion=True))
            vals[name] = f
            pins.append(z3.fpEQ(var, z3.FPVal(f, F.FMT)) if f != 0 else var == z3.FPVal(f, F.FMT))
            continue
        if kind == "bool":
            b = z3.is_true(model.eval(var, model_completion=True))
            vals[name] = b
            pins.append(var if b else z3.Not(var))
            continue
        fr = core.frac_of(model.eval(var, model_completion=True))
        if kind == "int":
            vals[name] = int(fr)
            pins.append(var == int(fr))
        else:
            f = float(fr)
            vals[name] = f
            n, d = f.as_integer_ratio()
            pins.append(var == z3.Q(n, d))
    return vals, pins


def concretise(ex, cx, extra=(), hints=()):
    """Find a model of the current path (plus `extra`) whose inputs are exactly float-representable.

    Returns (inputs_json, model, exact: bool) or None if `extra` is infeasible."""
    extra = list(extra)
    ex._hint_uf_exact = False
    for h in hints:
        uf_exact = False
        if isinstance(h, tuple) and h and h[0] == "uf_exact":
            uf_exact, h = True, h[1]
        if ex.check(*extra, *h) == "sat":
            extra = extra + list(h)
            ex._hint_uf_exact = uf_exact
            break
    r = ex.check(*extra)
    if r != "sat":
        return None
    model = ex.last_model()
    vals, pins = _round_inputs(cx, model)
    r = ex.check(*extra, *pins)
    if r == "sat":
        return vals, ex.last_model(), True
    # greedy repair: pin one input at a time to its rounded value, leave the others to the solver
    kept = []
    for p in pins:
        if ex.check(*extra, *kept, p) == "sat":
            kept.append(p)
    if ex.check(*extra, *kept) != "sat":
        return vals, model, False
    model = ex.last_model()
    vals, pins = _round_inputs(cx, model)
    if ex.check(*extra, *pins) == "sat":
        return vals, ex.last_model(), True
    return vals, model, False


def _group_inputs(x, vals):
    """Shape the flat {var name: value} dict like the harness' input structure (lists stay lists)."""
    return vals


# ----------------------------------------------------------------------------- regions of known findings
def region_term(entry, cx, params):
    expr = entry.get("region", "True")
    def _b(a):
        return z3.BoolVal(a) if isinstance(a, bool) else a

    ns = {"And": lambda *a: z3.And([_b(i) for i in a]), "Or": lambda *a: z3.Or([_b(i) for i in a]),
          "Not": lambda a: z3.Not(_b(a)), "Implies": lambda a, b: z3.Implies(_b(a), _b(b)), "If": z3.If,
          "True": True, "False": False, "None": None, "p": params, "Q": z3.Q}
    ns.update(cx.named)
    try:
        r = eval(expr, {"__builtins__": {}}, ns)  # noqa: S307 - committed file, predicate language over harness names
    except Exception as e:
        raise core.EngineError(f"known-finding region {expr!r} cannot be evaluated for instance: {e}")
    if isinstance(r, bool):
        return z3.BoolVal(r)
    return r


def matching_entries(known, prop, inst_name, label):
    out = []
    for e in known:
        if e.get("status") != "known" or e.get("property") != prop:
            continue
        if fnmatch.fnmatchcase(inst_name, e.get("instance", "*")) and any(fnmatch.fnmatchcase(label, pat) for pat in e.get("obligation", "*").split("|")):
            out.append(e)
    return out


# ----------------------------------------------------------------------------- main entry
def run_instance(harness, name, params, *, known=(), opts=None, pinned=None):
    """Explore one instance.  Returns a JSON-serialisable result dict."""
    opts = opts or {}
    ex = Explorer(query_timeout_ms=opts.get("query_timeout_ms", 20000), path_cap=opts.get("path_cap", 50000),
                  seed=opts.get("seed", 0), wall_cap_s=opts.get("wall_cap_s"))
    E = SymbolicWorld()
    max_witness = opts.get("max_witness", 2000)
    res = {
        "property": harness.prop, "instance": name, "params": params, "paths": 0, "violations": [], "witnesses": [],
        "suppressed": {}, "inconclusive": [], "labels": {}, "outcomes": {}, "samples": [],
    }
    t0 = time.time()
    state = {"cx": None}

    def run_path():
        cx = Cx(ex)
        state["cx"] = cx
        E.cx = cx
        x = harness.declare(cx, params)
        if pinned is not None:
            for nm, kind, var, nanvar in cx.inputs:
                if nm not in pinned:
                    continue
                v = pinned[nm]
                if kind == "fp":
                    from . import fp as F

                    ex.assume(var == z3.FPVal(float(v), F.FMT))
                elif kind == "bool":
                    ex.assume(var if v else z3.Not(var))
                elif v == "nan":
                    ex.assume(nanvar)
                else:
                    if nanvar is not None:
                        ex.assume(z3.Not(nanvar))
                    if kind == "int":
                        ex.assume(var == int(v))
                    else:
                        n, d = float(v).as_integer_ratio()
                        ex.assume(var == z3.Q(n, d))
        with warnings.catch_warnings():
            warnings.simplefilter("ignore")
            try:
                obs = harness.drive(E, params, x)
            except Exception as e:
                obs = {"raised": Raised(exc_name(e), str(e)[:200]), "_tb": traceback.format_exc()[-1500:]}
        return cx, x, obs

    def on_path(r):
        cx, x, obs = r
        tb = obs.pop("_tb", None) if isinstance(obs, dict) else None
        outcome = "raised:" + obs["raised"].name if isinstance(obs, dict) and isinstance(obs.get("raised"), Raised) else "result"
        res["outcomes"][outcome] = res["outcomes"].get(outcome, 0) + 1
        obligations = []
        try:
            for lab, f in harness.oracle(cx, params, x, obs):
                obligations.append((lab, f))
        except ShapeMismatch as e:
            # an observable lacks the cells the reference indexes: a failing obligation of its own (replayed like any other)
            obligations.append((f"observable_shape[{e}]", False))
        obligations += [(lab, f) for lab, f in harness.invariants(cx, params, x, obs)]
        hints = harness.witness_hints(cx, params, x) or ()
        terms = []
        for lab, f in obligations:
            if isinstance(f, S.generic):
                f = S.bool_term(f)
            elif isinstance(f, bool):
                f = z3.BoolVal(f)
            terms.append((lab, f))
            res["labels"][lab] = res["labels"].get(lab, 0) + 1
        path_id = res["paths"]
        res["paths"] += 1
        failing = []
        if terms:
            allob = z3.And([f for _, f in terms])
            r = ex.check(z3.Not(allob))
            if r in ("sat", "unknown"):
                for lab, f in terms:
                    r2 = ex.check(z3.Not(f))
                    if r2 == "sat":
                        failing.append((lab, f))
                    elif r2 == "unknown":
                        res["inconclusive"].append(f"solver unknown on obligation {lab} of path {path_id}")
        for lab, f in failing:
            entries = matching_entries(known, harness.prop, name, lab)
            extra = [z3.Not(f)]
            if entries:
                regs = [region_term(e, cx, params) for e in entries]
                r3 = ex.check(z3.Not(f), *[z3.Not(g) for g in regs])
                if r3 == "unsat":
                    for e, g in zip(entries, regs):
                        if ex.check(z3.Not(f), g) == "sat":
                            res["suppressed"][e["id"]] = res["suppressed"].get(e["id"], 0) + 1
                    continue
                if r3 == "unknown":
                    res["inconclusive"].append(f"solver unknown outside known region for {lab}")
                    continue
                extra += [z3.Not(g) for g in regs]
            got = concretise(ex, cx, extra, hints)
            if got is None:
                res["inconclusive"].append(f"counterexample vanished for {lab}")
                continue
            vals, model, exact = got
            exp, uf_free = eval_leaf(model, obs)
            exact = exact and (uf_free or ex._hint_uf_exact) and (not _pc_has_uf(ex) or ex._hint_uf_exact)
            n_same = len([v for v in res["violations"] if v["label"] == lab])
            res["n_violating_paths"] = res.get("n_violating_paths", 0) + 1
            if n_same < opts.get("max_violations_per_label", 2):
                res["violations"].append({"label": lab, "inputs": vals, "expected": exp, "exact": exact, "trace_len": len(ex.trace),
                                          "tb": tb, "obligation": str(z3.simplify(f))[:400] if False else None})
        # witness for cross-validation against the real library
        if len(res["witnesses"]) < max_witness:
            got = concretise(ex, cx, (), hints)
            if got is not None:
                vals, model, exact = got
                exp, uf_free = eval_leaf(model, obs)
                ok_uf = ex._hint_uf_exact or (uf_free and not _pc_has_uf(ex))
                res["witnesses"].append({"path": path_id, "inputs": vals, "expected": exp, "exact": exact and ok_uf})
                if len(res["samples"]) < 3:
                    res["samples"].append({"inputs": vals, "observed": exp, "obligations": [lab for lab, _ in terms][:12]})
        if tb and outcome not in res.get("tracebacks", {}):
            res.setdefault("tracebacks", {})[outcome] = tb

    try:
        status = ex.explore(run_path, on_path)
        if status != "done":
            res["inconclusive"].append(status)
    except Inconclusive as e:
        res["inconclusive"].append(f"{type(e).__name__}: {e.reason}")
        res["inconclusive_tb"] = traceback.format_exc()[-2500:]
    except core.EngineError as e:
        res["inconclusive"].append(f"EngineError: {e}")
        res["inconclusive_tb"] = traceback.format_exc()[-2500:]
    res.update(aborted=ex.n_aborted, decisions=ex.n_decisions, queries=dict(ex.queries), solver_s=round(ex.solver_s, 3),
               wall_s=round(time.time() - t0, 3))
    from . import loader

    res["functions"] = sorted(f for f in loader.encoded_functions if "<module>" not in f and not f.endswith(">"))
    if res["paths"] == 0 and not res["inconclusive"]:
        res["inconclusive"].append("vacuous: no path reached the obligations (assumptions unsatisfiable?)")
    return res
