"""symx.replay - the concrete twin: run harness drivers against the REAL library (real numpy, physt from /repo/src).

Usage: python -m symx.replay < jobs.json > results.json
jobs: [{"prop":..., "group":..., "instance":..., "params":{...}, "inputs":{var: value}}]
"""
from __future__ import annotations

import json
import math
import sys
import traceback
import warnings


class ConcCx:
    """Concrete counterpart of runner.Cx: declared inputs take the recorded values."""

    sym = False

    def __init__(self, vals):
        self.vals = vals

    def _get(self, name, conv):
        v = self.vals[name]
        if v == "nan":
            return math.nan
        return conv(v)

    def real(self, name, nan=False, cls=None):
        import numpy as np

        return np.float64(self._get(name, float))

    def reals(self, name, n, nan=False, cls=None):
        return [self.real(f"{name}{i}") for i in range(n)]

    def pyfloat(self, name):
        return self._get(name, float)

    def int(self, name, lo=None, hi=None, cls=None):
        import numpy as np

        return np.int64(self._get(name, int))

    def ints(self, name, n, lo=None, hi=None, cls=None):
        return [self.int(f"{name}{i}") for i in range(n)]

    def pyint(self, name, lo=None, hi=None):
        return self._get(name, int)

    def fp(self, name, lo=None, hi=None):
        return float(self.vals[name])

    def bool(self, name):
        import numpy as np

        return np.bool_(self.vals[name])

    def concrete_int(self, x):
        return int(x)

    def concrete_bool(self, x):
        return bool(x)

    def assume(self, *a):
        pass

    def define(self, name, expr):
        return None

    def t(self, x):
        return x

    def isnan(self, x):
        return False

    def b(self, x):
        return x


def main():
    import os

    sys.path.insert(0, os.path.dirname(os.path.dirname(os.path.abspath(__file__))))
    from symx import loader

    loader.load_concrete()
    import harness
    from symx.api import HARNESSES, ConcreteWorld, Raised, exc_name

    harness.load_all()
    E = ConcreteWorld()
    jobs = json.load(sys.stdin)
    out = []
    for job in jobs:
        H = [h for h in HARNESSES[job["prop"]] if h.group == job["group"]][0]
        cx = ConcCx(job["inputs"])
        E.cx = cx
        try:
            with warnings.catch_warnings():
                warnings.simplefilter("ignore")
                x = H.declare(cx, job["params"])
                try:
                    obs = H.drive(E, job["params"], x)
                except Exception as e:
                    obs = {"raised": Raised(exc_name(e), str(e)[:200])}
            out.append({"ok": True, "obs": E.canon(obs)})
        except BaseException:
            out.append({"ok": False, "error": traceback.format_exc()[-2000:]})
    json.dump(out, sys.stdout)


if __name__ == "__main__":
    main()
