"""symx.cli - ./check <Cxx> --tier quick|thorough [--replay file] [--filter substr] [--jobs n]

Exit codes: 0 held on everything explored (KNOWN-FINDING lines possible); 1 VIOLATION (replayed on the
real library, not covered by known_findings.json); 3 inconclusive / engine error (never reported as success).
"""
from __future__ import annotations

import argparse
import json
import multiprocessing as mp
import os
import subprocess
import sys
import time

ROOT = os.path.dirname(os.path.dirname(os.path.abspath(__file__)))
PY = sys.executable
KNOWN_FILE = os.environ.get("VERIF_KNOWN_FILE") or os.path.join(ROOT, "known_findings.json")   # the override is a debugging aid (list what an entry suppresses)

TIER_OPTS = {
    "quick": dict(query_timeout_ms=20000, path_cap=30000, max_witness=400, wall_cap_s=480),
    "thorough": dict(query_timeout_ms=60000, path_cap=400000, max_witness=3000, wall_cap_s=1500),
}


def load_known():
    if not os.path.exists(KNOWN_FILE):
        return []
    with open(KNOWN_FILE) as f:
        entries = json.load(f)
    for i, e in enumerate(entries):
        e.setdefault("id", f"K{i}")
    return entries


# ----------------------------------------------------------------------------- workers
def _work(job):
    from symx.api import HARNESSES
    from symx.runner import run_instance

    prop, gi, name, params, known, opts, pinned = job
    H = HARNESSES[prop][gi]
    try:
        r = run_instance(H, name, params, known=known, opts=opts, pinned=pinned)
    except BaseException as e:  # noqa: BLE001 - a worker must always answer
        import traceback

        r = {"property": prop, "instance": name, "params": params, "paths": 0, "violations": [], "witnesses": [],
             "suppressed": {}, "inconclusive": [f"worker crashed: {type(e).__name__}: {e}"], "labels": {}, "outcomes": {},
             "samples": [], "inconclusive_tb": traceback.format_exc()[-3000:], "decisions": 0, "queries": {}, "solver_s": 0,
             "wall_s": 0, "aborted": 0}
    r["group"] = H.group
    return r


def run_replay(jobs, n_proc=8):
    """Run concrete-twin jobs on the real library in parallel subprocesses; returns results in order."""
    if not jobs:
        return []
    n_proc = max(1, min(n_proc, (len(jobs) + 39) // 40))
    chunks = [jobs[i::n_proc] for i in range(n_proc)]
    procs = []
    env = dict(os.environ, PYTHONPATH=ROOT, PYTHONHASHSEED="0", MPLBACKEND="Agg")
    for ch in chunks:
        p = subprocess.Popen([PY, "-m", "symx.replay"], stdin=subprocess.PIPE, stdout=subprocess.PIPE, stderr=subprocess.PIPE,
                             cwd=ROOT, env=env, text=True)
        procs.append((p, ch))
    outs = []
    for p, ch in procs:
        so, se = p.communicate(json.dumps(ch))
        if p.returncode != 0:
            outs.append([{"ok": False, "error": f"replay process failed: {se[-1500:]}"}] * len(ch))
        else:
            outs.append(json.loads(so))
    res = [None] * len(jobs)
    for k, o in enumerate(outs):
        for j, r in enumerate(o):
            res[k + j * n_proc] = r
    return res


def same(a, b, numeric=True, rtol=1e-9, atol=1e-12):
    """Compare expected (model) and observed (real library) observables."""
    if isinstance(a, bool) or isinstance(b, bool):
        if isinstance(a, bool) and isinstance(b, bool):
            return a == b
        if isinstance(a, (int, float)) and isinstance(b, (int, float)):
            return float(a) == float(b)
        return False
    if isinstance(a, (int, float)) and isinstance(b, (int, float)):
        if not numeric:
            return True
        return abs(a - b) <= atol + rtol * max(abs(a), abs(b))
    if isinstance(a, (int, float)) or isinstance(b, (int, float)):
        if not numeric and {type(a), type(b)} <= {int, float, str}:
            return True
        return False
    if isinstance(a, list) and isinstance(b, list):
        return len(a) == len(b) and all(same(x, y, numeric, rtol, atol) for x, y in zip(a, b))
    if isinstance(a, dict) and isinstance(b, dict):
        # keys starting with "_" are world-specific annotations (not compared)
        ka = {k for k in a if not str(k).startswith("_")}
        kb = {k for k in b if not str(k).startswith("_")}
        return ka == kb and all(same(a[k], b[k], numeric, rtol, atol) for k in ka)
    return a == b


def diff(a, b, path=""):
    if isinstance(a, dict) and isinstance(b, dict):
        for k in sorted(set(a) | set(b)):
            if k not in a or k not in b:
                return f"{path}.{k}: missing on one side"
            d = diff(a[k], b[k], f"{path}.{k}")
            if d:
                return d
        return None
    if isinstance(a, list) and isinstance(b, list) and len(a) == len(b):
        for i, (x, y) in enumerate(zip(a, b)):
            d = diff(x, y, f"{path}[{i}]")
            if d:
                return d
        return None
    if not same(a, b):
        return f"{path}: model={a!r} real={b!r}"
    return None


# ----------------------------------------------------------------------------- main
def main(argv=None):
    ap = argparse.ArgumentParser(prog="check")
    ap.add_argument("prop", nargs="?")
    ap.add_argument("--tier", default=os.environ.get("VERIF_TIER", "quick"), choices=["quick", "thorough"])
    ap.add_argument("--replay")
    ap.add_argument("--filter", default="")
    ap.add_argument("--jobs", type=int, default=int(os.environ.get("VERIF_JOBS", "16")))
    ap.add_argument("--selftest", action="store_true")
    ap.add_argument("--list", action="store_true")
    ap.add_argument("--no-evidence", action="store_true")
    args = ap.parse_args(argv)
    seed = int(os.environ.get("VERIF_SEED", "0") or 0)

    if args.selftest:
        from symx import selftest

        return selftest.main()

    t0 = time.time()
    sys.path.insert(0, ROOT)
    from symx import loader

    loader.load_symbolic()
    import harness

    harness.load_all()
    from symx.api import HARNESSES

    prop = args.prop
    if prop not in HARNESSES:
        print(f"no harness for {prop}")
        return 3
    known = load_known()

    if args.replay:
        return replay_file(args.replay, prop, known)

    opts = dict(TIER_OPTS[args.tier], seed=seed)
    jobs = []
    for gi, H in enumerate(HARNESSES[prop]):
        for name, params in H.instances(args.tier):
            if any(f in name for f in args.filter.split("|")):
                jobs.append((prop, gi, name, params, known, opts, None))
    if args.list:
        for j in jobs:
            print(j[2])
        return 0
    # biggest first is unknown; keep order but let the pool balance
    with mp.get_context("fork").Pool(min(args.jobs, max(1, len(jobs)))) as pool:
        results = pool.map(_work, jobs, chunksize=1)

    # ---- known findings: replay the recorded inputs (pinned symbolic run + real run)
    known_lines, pinned_jobs = [], []
    inst_index = {(r["group"], r["instance"]): r for r in results}
    for e in known:
        if e.get("status") != "known" or e.get("property") != prop:
            continue
        gi = next((i for i, H in enumerate(HARNESSES[prop]) if H.group == e.get("group", HARNESSES[prop][0].group)), 0)
        H = HARNESSES[prop][gi]
        params = None
        for tier in ("quick", "thorough"):
            for name, p in H.instances(tier):
                if name == e.get("replay_instance"):
                    params = p
                    break
            if params:
                break
        if params is None:
            continue
        pinned_jobs.append((e, (prop, gi, e["replay_instance"], params, [], dict(opts, max_witness=0), e["input"])))
    pinned_results = [_work(j) for _, j in pinned_jobs]

    # ---- replay on the real library: violations (all), known-finding inputs, witnesses
    rjobs, rmeta = [], []
    for r in results:
        for v in r["violations"]:
            rjobs.append(dict(prop=prop, group=r["group"], instance=r["instance"], params=r["params"], inputs=v["inputs"]))
            rmeta.append(("viol", r, v))
    for (e, _), r in zip(pinned_jobs, pinned_results):
        for v in r["violations"]:
            rjobs.append(dict(prop=prop, group=r["group"], instance=r["instance"], params=r["params"], inputs=v["inputs"]))
            rmeta.append(("known", e, v))
    for r in results:
        for w in r["witnesses"]:
            rjobs.append(dict(prop=prop, group=r["group"], instance=r["instance"], params=r["params"], inputs=w["inputs"]))
            rmeta.append(("wit", r, w))
    robs = run_replay(rjobs, n_proc=args.jobs)

    violations, divergences, inconclusive, unconfirmed, real_only = [], [], [], [], []
    validated = unvalidated = 0
    known_confirmed = {}
    os.makedirs(os.path.join(ROOT, "replays", prop), exist_ok=True)
    for (kind, r, item), ro in zip(rmeta, robs):
        if not ro.get("ok"):
            divergences.append(f"replay twin crashed for {r.get('instance', r.get('id'))}: {ro.get('error', '')[-400:]}")
            continue
        agree = same(item["expected"], ro["obs"], numeric=item.get("exact", True))
        if kind == "viol" and not item.get("exact", True) and not agree:
            # counterexample on a path that depends on uninterpreted functions (or inexact inputs): the solver's values for
            # those need not be the real ones, so a non-reproducing model is an artefact of the abstraction, not a divergence
            # does the violation survive when the inputs are pinned to the binary64 values actually sent to the real library?
            gi = next(i for i, H in enumerate(HARNESSES[prop]) if H.group == r["group"])
            again = _work((prop, gi, r["instance"], r["params"], [], dict(opts, max_witness=0), item["inputs"]))
            if not again["inconclusive"] and not any(v["label"] == item["label"] for v in again["violations"]):
                real_only.append(f"{r['instance']} [{item['label']}]")
                continue
            unconfirmed.append(f"{r['instance']} [{item['label']}] inputs={item['inputs']}" + (f" traceback={item['tb'][-600:]!r}" if item.get("tb") else ""))
            continue
        if kind == "wit":
            if not item["exact"]:
                unvalidated += 1
                if not agree:
                    # structure differs although values were not exactly representable: not counted as a divergence
                    pass
                continue
            if agree:
                validated += 1
            else:
                divergences.append(f"model/real divergence in {r['instance']} inputs={item['inputs']}: {diff(item['expected'], ro['obs'])}")
        elif kind == "viol":
            if agree:
                n = len([v for v in violations if v[0]["instance"] == r["instance"]])
                path = os.path.join(ROOT, "replays", prop, f"{r['instance']}-{item['label'].replace('/', '_')}-{n}.json")
                with open(path, "w") as f:
                    json.dump(dict(property=prop, group=r["group"], instance=r["instance"], params=r["params"], obligation=item["label"],
                                   inputs=item["inputs"], model_observables=item["expected"], real_observables=ro["obs"]), f, indent=1)
                violations.append((r, item, path))
            else:
                divergences.append(f"counterexample did not reproduce in {r['instance']} [{item['label']}] inputs={item['inputs']}: {diff(item['expected'], ro['obs'])}")
        else:  # known
            if agree and _label_matches(item["label"], r):
                known_confirmed[r["id"]] = r
    for r in results:
        for m in r["inconclusive"]:
            inconclusive.append(f"{r['instance']}: {m}")
    for u in unconfirmed:
        inconclusive.append(f"unconfirmed counterexample (abstraction-dependent path, model did not replay): {u}")

    for e in known:
        if e.get("property") == prop and e.get("status") == "known" and e["id"] in known_confirmed:
            print(f"KNOWN-FINDING: property={prop} {e['what']} [instance={e.get('replay_instance')} obligation={e.get('obligation')} input={json.dumps(e['input'])}]")
        elif e.get("property") == prop and e.get("status") == "known":
            # the recorded input no longer fails (repaired code, or an input outside the instance's current bounds): say so, suppress nothing for it
            print(f"NOTE: recorded finding {e['id']} did not reproduce on its recorded input (stale entry?)")
    for r, item, path in violations:
        print(f"VIOLATION property={prop} replay={path}")
        print(f"  instance={r['instance']} obligation={item['label']} inputs={json.dumps(item['inputs'])}")
    for d in divergences[:20]:
        print(f"INCONCLUSIVE property={prop} reason=divergence {d}")
    for m in inconclusive[:20]:
        print(f"INCONCLUSIVE property={prop} reason={m}")
    for r in results:
        if r.get("inconclusive_tb") and r["inconclusive"]:
            print(f"--- {r['instance']}\n{r['inconclusive_tb']}")
            break

    wall = time.time() - t0
    tot = lambda k: sum(r.get(k, 0) or 0 for r in results)  # noqa: E731
    queries = {}
    for r in results:
        for k, v in (r.get("queries") or {}).items():
            queries[k] = queries.get(k, 0) + v
    suppressed = {}
    for r in results:
        for k, v in r["suppressed"].items():
            suppressed[k] = suppressed.get(k, 0) + v
    print(f"{prop} tier={args.tier}: instances={len(results)} paths={tot('paths')} decisions={tot('decisions')} queries={queries} "
          f"solver_s={tot('solver_s'):.1f} witnesses_validated={validated} (skipped inexact {unvalidated}) violations={len(violations)} "
          f"known_suppressed={suppressed} divergences={len(divergences)} inconclusive={len(inconclusive)} wall_s={wall:.1f}")

    if not args.no_evidence and not args.filter:
        from symx import evidence

        evidence.write(prop, args.tier, seed, results, HARNESSES[prop], dict(
            validated=validated, unvalidated=unvalidated, violations=len(violations), divergences=len(divergences),
            inconclusive=inconclusive[:50], real_only=real_only[:50], suppressed=suppressed, known_confirmed=sorted(known_confirmed), queries=queries, wall=wall,
            functions=sorted(_collect_functions(results))))
    if violations:
        return 1
    if divergences or inconclusive:
        return 3
    return 0


def _label_matches(label, entry):
    import fnmatch

    return any(fnmatch.fnmatchcase(label, pat) for pat in entry.get("obligation", "*").split("|"))


def _collect_functions(results):
    s = set()
    for r in results:
        s.update(r.get("functions", ()))
    return s


def replay_file(path, prop, known):
    from symx.api import HARNESSES

    with open(path) as f:
        rec = json.load(f)
    gi = next(i for i, H in enumerate(HARNESSES[prop]) if H.group == rec["group"])
    r = _work((prop, gi, rec["instance"], rec["params"], [], dict(TIER_OPTS["quick"], max_witness=0), rec["inputs"]))
    hit = [v for v in r["violations"] if v["label"] == rec["obligation"]]
    if not hit:
        print(f"replay: obligation {rec['obligation']} holds on the recorded input now ({r['inconclusive']})")
        return 0 if not r["inconclusive"] else 3
    ro = run_replay([dict(prop=prop, group=rec["group"], instance=rec["instance"], params=rec["params"], inputs=hit[0]["inputs"])])[0]
    if ro.get("ok") and same(hit[0]["expected"], ro["obs"], numeric=hit[0].get("exact", True)):
        print(f"VIOLATION property={prop} replay={path}")
        print(f"  real library observables: {json.dumps(ro['obs'])[:600]}")
        return 1
    print(f"INCONCLUSIVE property={prop} reason=recorded counterexample does not reproduce on the real library: {ro}")
    return 3


if __name__ == "__main__":
    sys.exit(main())
