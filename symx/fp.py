"""symx.fp - FP-mode: binary64 values as z3 FloatingPoint terms (round-to-nearest-even), for the grid-arithmetic kernels.

`fp64` is a numpy-float64-like scalar whose payload is a z3 FP term (or a concrete FP numeral).  All arithmetic is IEEE
(fpAdd/fpSub/fpMul/fpDiv with RNE), floor/ceil are roundToIntegral, int() keeps an integral FP value; a concrete Python
integer is only produced at `__index__` (array sizes / indices), by forking over the feasible integral values.
NaN is excluded by assumption on the inputs (the kernels never create one from finite operands except by inf-inf,
which the magnitude bounds rule out)."""
from __future__ import annotations

import math
import struct

import z3

from . import core
from . import scalars as S

FMT = z3.Float64()
RNE = z3.RNE()


class fp64(S.floating):
    __slots__ = ()
    _name = "float64"
    _rank = 6
    _fp = True

    @property
    def sym(self):
        return True

    def __index__(self):
        return fp_index(self)

    def __neg__(self):
        return mk(z3.fpNeg(self.v))

    def __abs__(self):
        return mk(z3.fpAbs(self.v))

    def item(self):
        return self

    def __float__(self):
        raise core.ShimUnsupported("float() of an FP-mode value")

    def __hash__(self):
        raise TypeError("unhashable FP-mode scalar")


def mk(term):
    return S._mk(fp64, term, None)


def is_fp(x):
    return isinstance(x, fp64)


def lift(x):
    """operand -> z3 FP term"""
    if isinstance(x, fp64):
        return x.v
    if isinstance(x, S.generic):
        if x.sym:
            raise core.ShimUnsupported("mixing R-mode symbolic values with FP-mode values")
        x = x.v
    if isinstance(x, bool):
        x = int(x)
    if isinstance(x, int):
        if abs(x) > 2**53:
            raise core.ShimUnsupported("integer beyond 2**53 in FP-mode")
        return z3.FPVal(float(x), FMT)
    if isinstance(x, float):
        return z3.FPVal(x, FMT)
    raise TypeError(f"cannot lift {type(x).__name__} to FP")


def arith(a, b, op):
    ta, tb = lift(a), lift(b)
    if op == "add":
        r = z3.fpAdd(RNE, ta, tb)
    elif op == "sub":
        r = z3.fpSub(RNE, ta, tb)
    elif op == "mul":
        r = z3.fpMul(RNE, ta, tb)
    elif op == "div":
        r = z3.fpDiv(RNE, ta, tb)
    elif op == "floordiv":
        r = z3.fpRoundToIntegral(z3.RTN(), z3.fpDiv(RNE, ta, tb))
    else:
        raise core.ShimUnsupported(f"FP-mode operation {op}")
    return mk(r)


_CMP = {"lt": z3.fpLT, "le": z3.fpLEQ, "gt": z3.fpGT, "ge": z3.fpGEQ, "eq": z3.fpEQ, "ne": z3.fpNEQ}


def compare(a, b, op):
    r = z3.simplify(_CMP[op](lift(a), lift(b)))
    if z3.is_true(r):
        return True
    if z3.is_false(r):
        return False
    return S._mk(S.bool_, r)


def floor(x):
    return mk(z3.fpRoundToIntegral(z3.RTN(), x.v))


def ceil(x):
    return mk(z3.fpRoundToIntegral(z3.RTP(), x.v))


def trunc(x):
    return mk(z3.fpRoundToIntegral(z3.RTZ(), x.v))


def fp_index(x, cap=60):
    """Concretise an integral FP value: fork over the integers it can equal (enumerated with the solver)."""
    ex = core.cur()
    t = z3.simplify(x.v)
    f = to_float(t)
    if f is not None:
        return int(f)

    def to_py(val):
        v = to_float(val)
        if v is None or v != v or not float(v).is_integer():
            return None
        return int(v)

    return ex.choose_value(t, to_py, lambda term, k: z3.fpEQ(term, z3.FPVal(float(k), FMT)), cap)


def to_float(val):
    """z3 FP numeral -> Python float (None if not a numeral)."""
    val = z3.simplify(val)
    if not isinstance(val, z3.FPNumRef) and not z3.is_fp_value(val):
        return None
    bv = z3.simplify(z3.fpToIEEEBV(val))
    if not z3.is_bv_value(bv):
        if val.isNaN():
            return math.nan
        return None
    return struct.unpack("<d", struct.pack("<Q", bv.as_long()))[0]


def ite(c, x, y):
    return mk(z3.If(c, lift(x), lift(y)))
