"""symx.selftest - validate the numpy model against REAL numpy on concrete inputs (./check --selftest).

Every case is an expression in `np`; it is evaluated with the model and with real numpy and the canonicalised results
(values, shapes, dtypes, exception class) must agree.  The 7x7 promotion / can_cast tables are compared exhaustively."""
from __future__ import annotations

import itertools
import math
import sys
import warnings


def canon(v, np_real=None):
    import numpy as real

    from . import arrays, scalars

    if isinstance(v, arrays.ndarray):
        return ("arr", v.dtype.name, tuple(v.shape), canon(v.tolist()))
    if isinstance(v, real.ndarray):
        return ("arr", str(v.dtype), tuple(v.shape), canon(v.tolist()))
    if isinstance(v, scalars.generic):
        return canon(v.v)
    if isinstance(v, real.generic):
        return canon(v.item() if not isinstance(v, real.floating) else float(v))
    if isinstance(v, (arrays.dtype, real.dtype)):
        return ("dtype", str(v))
    if isinstance(v, bool):
        return bool(v)
    if isinstance(v, int):
        return float(v)
    if isinstance(v, float):
        if v != v:
            return "nan"
        return round(v, 12) if math.isfinite(v) else str(v)
    if isinstance(v, (list, tuple)):
        return [canon(i) for i in v]
    return v


D = ["int16", "int32", "int64", "uint16", "uint32", "uint64", "float16", "float32", "float64", "float128"]

CASES = [
    "np.asarray([[1, 2, 3], [4, 5, 6]]).T",
    "np.asarray([[1, 2, 3], [4, 5, 6]])[:, 1]",
    "np.asarray([[1, 2, 3], [4, 5, 6]])[1, ::2]",
    "np.asarray([[1, 2, 3], [4, 5, 6]])[..., 0]",
    "np.asarray([[1, 2, 3], [4, 5, 6]])[None, 1].shape",
    "np.asarray([[1, 2, 3], [4, 5, 6]]).sum(axis=0)",
    "np.asarray([[1, 2, 3], [4, 5, 6]]).sum(axis=(0, 1))",
    "np.asarray([[1, 2, 3], [4, 5, 6]]).sum(axis=1)[:, np.newaxis]",
    "np.asarray([[[1, 2], [3, 4]], [[5, 6], [7, 8]]]).sum(axis=(0, 2))",
    "np.asarray([1.5, 2.5, 3.5]).cumsum()",
    "np.cumsum(np.asarray([[1, 2], [3, 4]]), 0)",
    "np.cumsum(np.asarray([[1, 2], [3, 4]]), 1)",
    "np.asarray([3, 1, 2])[np.argsort(np.asarray([3, 1, 2]))]",
    "np.argsort(np.asarray([2.0, float('nan'), 1.0]))",
    "np.searchsorted(np.asarray([1.0, 2.0, 3.0]), 2.0, side='left')",
    "np.searchsorted(np.asarray([1.0, 2.0, 3.0]), 2.0, side='right')",
    "np.searchsorted(np.asarray([1.0, 2.0, 3.0]), np.asarray([0.0, 2.5, 9.0]))",
    "np.searchsorted(np.asarray([]), 2.0)",
    "np.hstack((np.asarray([1, 2])[:, np.newaxis], np.asarray([3, 4])[:, np.newaxis]))",
    "np.concatenate([np.asarray([1.0])[:1], np.asarray([2.0, 3.0])])",
    "np.concatenate([np.asarray([[1], [2]]), np.asarray([[3.5], [4.5]])], axis=1)",
    "np.meshgrid(np.asarray([1, 2]), np.asarray([3, 4, 5]), indexing='ij')[1]",
    "np.asarray([[1, 2, 3], [4, 5, 6]])[np.ix_(np.asarray([0, 1]), np.asarray([0, 2]))]",
    "np.asarray([[1, 2, 3], [4, 5, 6]])[np.ix_([1], [])].shape",
    "np.multiply.outer(np.asarray([1, 2]), np.asarray([3, 4, 5]))",
    "np.outer(np.asarray([1, 2]), np.asarray([3.0, 4.0]))",
    "np.linspace(0, 1, 5)",
    "np.linspace(2.0, 3.0, 1)",
    "np.arange(4, dtype=int) * 0.5 + 1",
    "np.diff(np.asarray([1.0, 4.0, 9.0]))",
    "np.allclose(np.asarray([1.0, 2.0]), np.asarray([1.0, 2.00001]))",
    "np.allclose(np.asarray([1.0, 2.0]), np.asarray([1.0, 2.1]))",
    "np.allclose(np.asarray([float('nan')]), np.asarray([float('nan')]), equal_nan=True)",
    "np.array_equal(np.asarray([1, 2]), np.asarray([1, 2]))",
    "np.array_equal(np.asarray([1, 2]), np.asarray([1, 2, 3]))",
    "np.isnan(np.asarray([1.0, float('nan')]))",
    "~np.isnan(np.asarray([[1.0, float('nan')], [2.0, 3.0]])).any(axis=1)",
    "np.asarray([[1.0, float('nan')], [2.0, 3.0]])[~np.isnan(np.asarray([[1.0, float('nan')], [2.0, 3.0]])).any(axis=1)]",
    "np.asarray([1.0, 2.0, 3.0])[np.asarray([True, False, True])]",
    "np.asarray([1, 2, 3])[np.asarray([2, 0])]",
    "np.floor(2.5), np.ceil(2.5), np.floor(-2.5), np.ceil(-2.5)",
    "np.floor(np.log10(445.0)).astype(int)",
    "(np.asarray([0.4, 0.5, 1.5, 2.5, 2.6]) * 1).round().astype(int)",
    "np.asarray([1.7, -1.7]).astype(int)",
    "np.asarray([1, 2], dtype='int16') * 2",
    "(np.asarray([1, 2], dtype='int16') * 2.5).dtype",
    "(np.asarray([1, 2], dtype='float32') * 2).dtype",
    "(np.asarray([1, 2], dtype='int32') / 2).dtype",
    "(np.asarray([1, 2], dtype='int16') + np.asarray([1.0, 2.0], dtype='float16')).dtype",
    "np.asarray([30000, 30000], dtype='int16').sum()",
    "np.asarray([30000, 30000], dtype='int16').sum(dtype='int16')",
    "np.cumsum(np.asarray([30000, 30000], dtype='int16'), dtype='int16')",
    "np.asarray([40000]).astype('int16')",
    "np.asarray([70000, -1]).astype('uint16'), np.asarray([1.7, 2.2]).astype('uint32'), np.dtype('uint16').kind, np.dtype(np.uint32).name",
    "(np.asarray([1, 2], dtype='uint16') + np.asarray([1, 2], dtype='int16')).dtype, (np.asarray([1], dtype='uint32') + np.asarray([1])).dtype, (np.asarray([1], dtype='uint16') * 2.5).dtype",
    "np.asarray([65535], dtype='uint16') + np.asarray([1], dtype='uint16'), np.asarray([3], dtype='uint16') - np.asarray([5], dtype='uint16')",
    "np.iinfo('uint16').max, np.iinfo(np.uint32).min, np.issubdtype(np.uint16, np.integer), np.issubdtype(np.uint16, int), np.issubdtype(np.uint16, np.signedinteger)",
    "np.can_cast('int64', 'uint16', 'same_kind'), np.can_cast('uint16', 'int64', 'same_kind'), np.can_cast('uint16', 'int32'), np.can_cast('uint32', 'int32'), np.can_cast('float64', 'uint16', 'same_kind')",
    "np.issubdtype(np.int16, int), np.issubdtype(np.int64, int), np.issubdtype(np.float32, float), np.issubdtype(np.float64, float), np.issubdtype(np.dtype('int32'), np.integer)",
    "(np.asarray([1], dtype='uint64') + np.asarray([1])).dtype, (np.asarray([1], dtype='uint64') + np.asarray([1], dtype='uint16')).dtype, np.asarray([-1]).astype('uint64')",
    "np.zeros(2, dtype='uint16').dtype, np.asarray([1, 2], dtype=np.uint16).sum().dtype, np.asarray([1, 2], dtype=np.uint16).cumsum().dtype",
    "np.asarray([70000.0]).astype('float16')",
    "np.asarray(5).dtype, np.asarray(5.0).dtype, np.asarray(True).dtype, np.asarray([]).dtype",
    "np.asarray([1, 2.0]).dtype, np.asarray([True, 2]).dtype",
    "np.zeros((2, 0)).shape, np.zeros(3, dtype=int).dtype",
    "np.ones_like(np.asarray([1.5, 2.5]), dtype=int)",
    "np.median(np.asarray([3.0, 1.0, 2.0])), np.median(np.asarray([4.0, 1.0, 2.0, 3.0]))",
    "np.percentile(np.asarray([1.0, 2.0, 4.0]), np.asarray([0.0, 50.0, 75.0, 100.0]))",
    "np.percentile(np.asarray([3.0, 1.0]), 50.0)",
    "np.min(np.asarray([3.0, 1.0])), np.max(np.asarray([3.0, 1.0])), np.asarray([3, 1]).min()",
    "np.any(np.asarray([0, 0])), np.all(np.asarray([1, 2])), np.any(np.asarray([]))",
    "np.atleast_1d(np.asarray(3.0)).shape, np.atleast_2d(np.asarray([1, 2])).shape",
    "np.isscalar(3), np.isscalar(np.float64(3)), np.isscalar(np.asarray(3)), np.isscalar([1]), np.isscalar('a')",
    "np.iterable(3), np.iterable([3])",
    "np.hypot(3.0, 4.0), np.arctan2(1.0, 0.0), np.arctan2(0.0, -1.0) % (2 * np.pi)",
    "np.arccos(1.0), np.arccos(-1.0), np.arcsin(0.0), np.arctan(0.0), np.arccos(np.asarray([0.0, 1.0]))",
    "np.sqrt(np.asarray([4.0, 9.0])), np.abs(np.asarray([-1, 2]))",
    "np.prod((2, 3)), np.prod(())",
    "np.asarray([[1, 2], [3, 4]]).flatten(), np.asarray([[1, 2], [3, 4]]).T.flatten()",
    "np.asarray([[1, 2, 3], [4, 5, 6]]).copy(order='F').ravel(order='K'), np.asarray([[1, 2, 3], [4, 5, 6]]).copy(order='F').flatten(), np.asarray([[1, 2, 3], [4, 5, 6]]).copy(order='F').tolist()",
    "np.asarray([[1, 2, 3], [4, 5, 6]]).T.copy(order='K').ravel(order='K'), np.asarray([[1, 2, 3], [4, 5, 6]]).T.copy().ravel(order='K'), np.asarray([[1, 2, 3], [4, 5, 6]])[:, ::2].ravel(order='K')",
    "np.asfortranarray(np.asarray([[1, 2], [3, 4]])).ravel(order='K'), np.ascontiguousarray(np.asarray([[1, 2], [3, 4]]).T).ravel(order='K'), np.asarray([[1, 2], [3, 4]])[::-1].ravel(order='K')",
    "np.asarray([1, 2, 3])[::-1], np.asarray([1, 2, 3])[5:], np.asarray([1, 2, 3])[-2:]",
    "np.array_equal(np.asarray([1.0, 2.0]), None), np.array_equal(None, None), np.array_equal(np.asarray([1, 2]), [1, 2])",
    "np.shares_memory(np.arange(6)[1:3], np.arange(6)), (lambda a: (np.shares_memory(a[1:3], a), np.shares_memory(a[:2], a[2:]), np.shares_memory(a.copy(), a)))(np.arange(6))",
    "np.unique(np.asarray([3.0, 1.0, 3.0, 2.0])), np.unique(np.asarray([[2, 1], [1, 2]]))",
    "np.swapaxes(np.arange(6).reshape(2, 3), 0, 1), np.arange(24).reshape(2, 3, 4).swapaxes(0, 2).shape, np.take(np.arange(6).reshape(2, 3), 1, axis=1), np.arange(24).reshape(2, 3, 4).take(2, axis=2)",
    "np.fmod(-3.0, 2.0), np.fmod(3.0, -2.0), np.fmod(np.asarray([-3.5, 3.5, -4.0]), 2.0), np.fmod(-1.0, 6.283185307179586)",
    "np.result_type(np.int16, 100), np.result_type(np.int16, 1.5), np.result_type(np.float32, 2), np.result_type(np.float32, 2.5), np.result_type(np.int64, np.float32), np.result_type(np.dtype('int16'), np.int64(3))",
    "np.diff(np.asarray([1.0, 2.5, 4.0])), np.diff(np.asarray([1.0, 2.5]), append=7.0), np.diff(np.asarray([1, 2]), prepend=0)",
    "np.nan_to_num(np.asarray([1.5, np.nan, 3.0])), np.nan_to_num(np.asarray([1, 2])), np.nan_to_num(np.asarray([np.nan, np.nan, 2.0])).dtype",
    "np.asarray([[0.0, 1.0], [1.0, 2.0]])[1:, 0], np.asarray([[0.0, 1.0], [1.0, 2.0]])[:-1, 1]",
    "np.promote_types('int16', 'float16'), np.can_cast('int64', 'float64'), np.can_cast('float64', 'int64')",
    "np.dtype(int) == np.int64, np.dtype('float32').kind, str(np.dtype(np.int16)), np.dtype(float).type is np.float64",
    "np.issubdtype(np.dtype('int32'), np.integer), np.issubdtype(np.dtype('float16'), np.floating), np.issubdtype(np.dtype('int32'), np.floating)",
    "np.iinfo('int16').max, np.iinfo(np.int32).min, np.finfo('float16').max, np.finfo(np.float32).max",
    "np.histogramdd(np.asarray([[0.5, 0.5], [1.0, 2.0], [3.0, 0.1]]), [np.asarray([0.0, 1.0, 2.0]), np.asarray([0.0, 1.0, 2.0])])[0]",
    "np.histogramdd(np.asarray([[0.5, 0.5], [2.0, 2.0]]), [np.asarray([0.0, 1.0, 2.0]), np.asarray([0.0, 1.0, 2.0, np.inf])], weights=np.asarray([2.0, 3.0]))[0]",
    "np.asarray([1, 2]) == None",
    "np.float64(2.0) * np.asarray([1, 2]), 2 * np.asarray([1.5])",
    "np.asarray([[4.0, 9.0]]).sum(axis=0) / np.asarray([2.0, 3.0])",
    "np.empty((2, 2), dtype=float).shape, np.ndarray((3, 2)).shape",
    "np.asarray([1.0, 2.0]) % 1.0, np.asarray([5.5]) // 2, -7 // np.int64(2), np.float64(-7.5) % 2",
    "np.asarray([1, 2, 3]).astype(float).mean(), np.asarray([1.0, 2.0, 3.0]).std()",
    "np.argmin(np.asarray([3.0, 1.0, 2.0])), np.argmin(np.abs(np.log(np.asarray([0.5, 1, 2, 2.5, 5, 10]) * 100.0 / 445.0)))",
    "np.log2(8.0), np.log10(1000.0), np.power(8, 1 / 3)",
    "np.append(np.asarray([1.0, 2.0]), np.asarray([3.0, 4.0])[-1:]), np.append([[1, 2]], [[3, 4]], axis=0), np.append(np.asarray([]), [1]).dtype",
    "[a.shape for a in np.meshgrid([1, 2, 3], [4, 5], indexing='ij', sparse=True)], [a.shape for a in np.meshgrid([1, 2, 3], [4, 5], sparse=True)], np.meshgrid([1, 2], [4, 5, 6], indexing='ij', sparse=True)[1]",
    "np.squeeze(np.asarray([[1.0, 2.0]])), np.squeeze(np.asarray([[1.0], [2.0]])).shape, np.squeeze(np.asarray([[3.0]])).shape, np.asarray([[1, 2]]).squeeze(axis=0)",
    "np.fromiter(iter([1, 2, 3]), dtype=float), np.fromiter((x * x for x in range(4)), dtype=int, count=2), np.fromiter(iter([]), dtype=float).shape",
    "np.zeros((2, 2))[np.ix_([], [])].shape, np.zeros((2, 2))[np.ix_(np.asarray([], dtype=int), np.asarray([1]))].shape",
]

ERROR_CASES = [
    "np.fromiter(iter([[1, 2], [3, 4]]), dtype=float)",
    "np.squeeze(np.asarray([[1, 2]]), axis=1)",
    "np.add(np.asarray([1, 2], dtype='uint16'), np.asarray([1, 2]), out=np.asarray([1, 2], dtype='uint16'))",
    "np.zeros((2, 2))[np.ix_(np.asarray([]), np.asarray([]))]",
    "np.empty((2.0, 2))",
    "np.zeros(3.0)",
    "np.asarray([[1, 2], [3, 4]]).cumsum(axis='x')",
    "np.asarray([[1, 2], [3, 4]]).sum(axis='x')",
    "np.asarray([[1, 2], [3]])",
    "np.asarray([1, 2]) + np.asarray([1, 2, 3])",
    "np.asarray([1, 2, 3])[5]",
    "np.asarray([1, 2, 3])[np.asarray([True, False])]",
    "np.zeros(2, dtype=int).__iadd__(np.asarray([0.5, 0.5]))",
    "np.zeros(2, dtype=int).__itruediv__(2)",
    "np.asarray([float('nan')]).astype(int) if False else np.zeros(1, dtype=int).__setitem__(0, float('nan'))",
    "np.dtype('no_such_type')",
    "np.concatenate([np.asarray([1, 2]), np.asarray([[1, 2]])])",
    "np.asarray('abc', dtype=float)",
    "bool(np.asarray([1, 2]))",
    "np.asarray([]).max()",
    "np.iinfo('float64')",
]


def run(expr, np):
    with warnings.catch_warnings():
        warnings.simplefilter("ignore")
        try:
            return ("ok", canon(eval(expr, {"np": np})))
        except Exception as e:
            for c in type(e).__mro__:
                if c.__module__ == "builtins":
                    return ("raised", c.__name__)
            return ("raised", type(e).__name__)


def main():
    import numpy as real

    from . import symnp as model

    bad = 0
    for expr in CASES + ERROR_CASES:
        a, b = run(expr, model), run(expr, real)
        if expr in ERROR_CASES and (a[0] != "raised" or b[0] != "raised"):
            print(f"SELFTEST expected an exception: {expr}\n   model={a}\n   numpy={b}")
            bad += 1
        elif a != b:
            print(f"SELFTEST MISMATCH: {expr}\n   model={a}\n   numpy={b}")
            bad += 1
    for x, y in itertools.product(D, D):
        for name in ("promote_types", "can_cast"):
            a, b = run(f"np.{name}('{x}', '{y}')", model), run(f"np.{name}('{x}', '{y}')", real)
            if a != b:
                print(f"SELFTEST MISMATCH: {name}({x}, {y}) model={a} numpy={b}")
                bad += 1
        for casting in ("same_kind", "unsafe", "equiv"):
            e = f"np.can_cast('{x}', '{y}', casting='{casting}')"
            a, b = run(e, model), run(e, real)
            if a != b:
                print(f"SELFTEST MISMATCH: {e} model={a} numpy={b}")
                bad += 1
        for op in ("+", "*", "/"):
            e = f"(np.ones(1, dtype='{x}') {op} np.ones(1, dtype='{y}')).dtype"
            a, b = run(e, model), run(e, real)
            if a != b:
                print(f"SELFTEST MISMATCH: {e} model={a} numpy={b}")
                bad += 1
        e = f"np.ones(1, dtype='{x}').__iadd__(np.ones(1, dtype='{y}')).dtype"
        a, b = run(e, model), run(e, real)
        if a != b:
            print(f"SELFTEST MISMATCH: {e} model={a} numpy={b}")
            bad += 1
    for x in D:
        for lit in ("2", "2.5"):
            e = f"(np.ones(1, dtype='{x}') * {lit}).dtype, (np.{x if x != 'float128' else 'longdouble'}(1) * {lit}).dtype"
            a, b = run(e, model), run(e, real)
            if a != b:
                print(f"SELFTEST MISMATCH: {e} model={a} numpy={b}")
                bad += 1
    n = len(CASES) + len(ERROR_CASES) + len(D) * len(D) * 6 + len(D) * 2
    print(f"selftest: {n} comparisons of the numpy model with numpy {real.__version__}, {bad} mismatches")
    return 1 if bad else 0


if __name__ == "__main__":
    sys.exit(main())
