"""symx.arrays - dtype objects and a list-backed strided ndarray (views included) for the numpy model."""
from __future__ import annotations

import builtins
import itertools
import math

import z3

from . import core
from . import scalars as S
from .core import ShimUnsupported
from .scalars import generic, _mk, wrap, cast_scalar

newaxis = None


# ----------------------------------------------------------------------------- dtype
class dtype:
    __slots__ = ("type",)
    _cache = {}

    def __new__(cls, spec=None, *a, **k):
        t = _dtype_cls(spec)
        d = cls._cache.get(t)
        if d is None:
            d = object.__new__(cls)
            d.type = t
            cls._cache[t] = d
        return d

    @property
    def name(self):
        return self.type._name

    @property
    def kind(self):
        return "u" if getattr(self.type, "_unsigned", False) else self.type._kind

    @property
    def itemsize(self):
        return {"bool": 1, "int16": 2, "int32": 4, "int64": 8, "uint16": 2, "uint32": 4, "uint64": 8, "float16": 2, "float32": 4, "float64": 8, "float128": 16}[self.name]

    @property
    def char(self):
        return {"bool": "?", "int16": "h", "int32": "i", "int64": "l", "uint16": "H", "uint32": "I", "uint64": "L", "float16": "e", "float32": "f", "float64": "d", "float128": "g"}[self.name]

    def __eq__(self, o):
        if o is None:
            return False
        try:
            return self.type is _dtype_cls(o)
        except TypeError:
            return False

    def __ne__(self, o):
        return not self.__eq__(o)

    def __hash__(self):
        return hash(self.type._name)

    def __repr__(self):
        return f"dtype('{self.name}')"

    def __str__(self):
        return self.name


def _dtype_cls(spec):
    if isinstance(spec, dtype):
        return spec.type
    if spec is None:
        return S.float64
    if isinstance(spec, type):
        if issubclass(spec, generic):
            if getattr(spec, "_fp", False):
                return S.float64
            if spec is S.pyint:
                return S.int64
            if spec is S.pyfloat:
                return S.float64
            if spec in S.NP_TYPES or spec in (S.str_, S.object_, S.complex128):
                return spec
            raise TypeError(f"data type {spec.__name__} not understood")
        if spec is bool:
            return S.bool_
        if spec is int:
            return S.int64
        if spec is float:
            return S.float64
        if spec is str:
            return S.str_
        if spec is complex:
            return S.complex128
        if spec is object or spec in (list, tuple, dict, type(None)):
            return S.object_
        raise TypeError(f"Cannot interpret '{spec}' as a data type")
    if spec is S.py_int:
        return S.int64
    if spec is S.py_float:
        return S.float64
    if isinstance(spec, str):
        names = {"int": S.int64, "float": S.float64, "bool": S.bool_, "double": S.float64, "i8": S.int64, "f8": S.float64,
                 "i4": S.int32, "i2": S.int16, "u2": S.uint16, "u4": S.uint32, "u8": S.uint64, "f4": S.float32, "f2": S.float16, "<f8": S.float64, "<i8": S.int64, "long": S.int64,
                 "int_": S.int64, "float_": S.float64}
        if spec in S.BY_NAME:
            return S.BY_NAME[spec]
        if spec in names:
            return names[spec]
        if spec in ("str", "U", "<U1", "S"):
            return S.str_
        if spec in ("object", "O"):
            return S.object_
        if spec in ("complex", "complex128", "c16"):
            return S.complex128
    raise TypeError(f"data type {spec!r} not understood")


def _zero(cls):
    return _mk(cls, False if cls._kind == "b" else 0 if cls._kind == "i" else 0.0)


def _one(cls):
    return _mk(cls, True if cls._kind == "b" else 1 if cls._kind == "i" else 1.0)


def _prod(t):
    return math.prod(t)


def _cstrides(shape):
    st, acc = [], 1
    for d in reversed(shape):
        st.append(acc)
        acc *= d
    return tuple(reversed(st))


def _as_index(k):
    if getattr(type(k), "_fp", False):
        return k.__index__()
    if isinstance(k, bool):
        raise ShimUnsupported("bool scalar index")
    if isinstance(k, int):
        return k
    if isinstance(k, generic) and k._kind == "i":
        return k.__index__()
    if hasattr(k, "__index__") and not isinstance(k, generic):
        return k.__index__()
    raise IndexError("only integers, slices (`:`), ellipsis (`...`), numpy.newaxis (`None`) and integer or boolean arrays are valid indices")


def _slice_index(x):
    if x is None:
        return None
    return _as_index(x)


class UFuncTypeError(TypeError):
    pass


class AxisError(ValueError, IndexError):
    pass


# ----------------------------------------------------------------------------- ndarray
class ndarray:
    __slots__ = ("_buf", "_off", "shape", "_strides", "dtype", "base", "name")  # `name`: lets a harness build a named column (stands for an ndarray subclass / Series-like object)
    __array_priority__ = 1
    __hash__ = None

    def __init__(self, shape, dtype=float, buffer=None, **k):
        shape = (shape,) if isinstance(shape, int) else tuple(int(s) for s in shape)
        dt = globals()["dtype"](dtype)
        self._buf = [_zero(dt.type)] * _prod(shape)
        self._off = 0
        self.shape = shape
        self._strides = _cstrides(shape)
        self.dtype = dt
        self.base = None

    @classmethod
    def _mk(cls, buf, shape, dt, off=0, strides=None, base=None):
        a = object.__new__(cls)
        a._buf = buf
        a._off = off
        a.shape = tuple(shape)
        a._strides = tuple(strides) if strides is not None else _cstrides(a.shape)
        a.dtype = dt
        a.base = base
        return a

    @classmethod
    def _from_list(cls, items, shape, dt):
        return cls._mk(list(items), shape, dt)

    # -- structure
    @property
    def ndim(self):
        return len(self.shape)

    @property
    def size(self):
        return _prod(self.shape)

    @property
    def T(self):
        return ndarray._mk(self._buf, self.shape[::-1], self.dtype, self._off, self._strides[::-1], base=self)

    def swapaxes(self, axis1, axis2):
        perm = list(range(self.ndim))
        perm[axis1], perm[axis2] = perm[axis2], perm[axis1]
        return self.transpose(perm)

    def take(self, indices, axis=None, **kw):
        from . import npfuncs

        return npfuncs.take(self, indices, axis=axis)

    def transpose(self, *axes):
        if not axes or axes == (None,):
            return self.T
        if len(axes) == 1 and isinstance(axes[0], (tuple, list)):
            axes = tuple(axes[0])
        return ndarray._mk(self._buf, [self.shape[a] for a in axes], self.dtype, self._off, [self._strides[a] for a in axes], base=self)

    @property
    def real(self):
        return self

    def __len__(self):
        if not self.shape:
            raise TypeError("len() of unsized object")
        return self.shape[0]

    def _offsets(self):
        if not self.shape:
            return [self._off]
        offs = [self._off]
        for d, s in zip(self.shape, self._strides):
            offs = [o + i * s for o in offs for i in range(d)]
        return offs

    def _items(self):
        b = self._buf
        return [b[o] for o in self._offsets()]

    def _first(self):
        return self._buf[self._offsets()[0]]

    def __iter__(self):
        if not self.shape:
            raise TypeError("iteration over a 0-d array")
        for i in range(self.shape[0]):
            yield self[i]

    def flatten(self, order="C"):
        if order in ("K", "A", "F") and self.ndim > 1:
            # memory order: axes sorted by decreasing stride ("K"); "F" = first axis fastest; "A" = F only for F-contiguous data
            if order == "F" or (order == "A" and self._strides == _cstrides(self.shape[::-1])[::-1] and self._strides != _cstrides(self.shape)):
                perm = list(range(self.ndim))[::-1]
            elif order == "K":
                perm = sorted(range(self.ndim), key=lambda a: (-builtins.abs(self._strides[a]), a))
            else:
                perm = list(range(self.ndim))
            return ndarray._from_list(self.transpose(perm)._items(), (self.size,), self.dtype)
        return ndarray._from_list(self._items(), (self.size,), self.dtype)

    def ravel(self, order="C"):
        return self.flatten(order)

    def reshape(self, *shape):
        if len(shape) == 1 and isinstance(shape[0], (tuple, list)):
            shape = tuple(shape[0])
        shape = [int(s) for s in shape]
        if -1 in shape:
            i = shape.index(-1)
            rest = _prod([s for s in shape if s != -1])
            shape[i] = self.size // rest if rest else 0
        if _prod(shape) != self.size:
            raise ValueError(f"cannot reshape array of size {self.size} into shape {tuple(shape)}")
        return ndarray._from_list(self._items(), shape, self.dtype)

    def squeeze(self, axis=None):
        if axis is None:
            return self.reshape([d for d in self.shape if d != 1])
        axes = [_norm_axis(a, self.ndim) for a in (axis if isinstance(axis, (tuple, list)) else (axis,))]
        if builtins.any(self.shape[a] != 1 for a in axes):
            raise ValueError("cannot select an axis to squeeze out which has size not equal to one")
        return self.reshape([d for i, d in enumerate(self.shape) if i not in axes])

    def copy(self, order="C"):
        if order in ("F", "K", "A") and self.ndim > 1:
            # a copy whose memory order has axis perm[0] slowest ... perm[-1] fastest (F: reversed axes; K: keep the source's stride order)
            if order == "F" or (order == "A" and self._strides == _cstrides(self.shape[::-1])[::-1] and self._strides != _cstrides(self.shape)):
                perm = list(range(self.ndim))[::-1]
            elif order == "K":
                perm = sorted(range(self.ndim), key=lambda a: (-builtins.abs(self._strides[a]), a))
            else:
                perm = list(range(self.ndim))
            if perm != list(range(self.ndim)):
                t = self.transpose(perm)
                base = ndarray._from_list(t._items(), t.shape, self.dtype)
                inv = [perm.index(a) for a in range(self.ndim)]
                return base.transpose(inv)
        return ndarray._from_list(self._items(), self.shape, self.dtype)

    def __copy__(self):
        return self.copy()

    def __deepcopy__(self, memo):
        return self.copy()

    def astype(self, dt, copy=True, **kw):
        dt = dtype(dt)
        if dt is self.dtype:
            return self.copy()
        c = dt.type
        return ndarray._from_list([cast_scalar(x, c) for x in self._items()], self.shape, dt)

    def tolist(self):
        items = [x.item() for x in self._items()]
        if not self.shape:
            return items[0]

        def rec(flat, dims):
            if len(dims) == 1:
                return list(flat)
            step = _prod(dims[1:])
            return [rec(flat[i * step:(i + 1) * step], dims[1:]) for i in range(dims[0])]

        return rec(items, self.shape)

    def item(self, *args):
        if args:
            return self[args if len(args) > 1 else args[0]].item()
        if self.size != 1:
            raise ValueError("can only convert an array of size 1 to a Python scalar")
        return self._first().item()

    def fill(self, value):
        self[...] = value

    def __bool__(self):
        if self.size == 1:
            return bool(self._first())
        if self.size == 0:
            raise ValueError("The truth value of an empty array is ambiguous.")
        raise ValueError("The truth value of an array with more than one element is ambiguous. Use a.any() or a.all()")

    def __index__(self):
        if self.size == 1 and self.dtype.kind == "i":
            return self._first().__index__()
        raise TypeError("only integer scalar arrays can be converted to a scalar index")

    def __int__(self):
        if self.size != 1:
            raise TypeError("only length-1 arrays can be converted to Python scalars")
        return int(self._first())

    def __float__(self):
        if self.size != 1:
            raise TypeError("only length-1 arrays can be converted to Python scalars")
        return float(self._first())

    def __repr__(self):
        try:
            return f"array({self.tolist()!r}, dtype={self.dtype.name})"
        except BaseException:
            return f"array(<shape {self.shape}>)"

    __str__ = __repr__

    def __format__(self, spec):
        return repr(self)

    # -- indexing
    def _expand_key(self, key):
        if not isinstance(key, tuple):
            key = (key,)
        key = list(key)
        n_ell = sum(1 for k in key if k is Ellipsis)
        if n_ell > 1:
            raise IndexError("an index can only have a single ellipsis ('...')")

        def consumes(k):
            if k is None or k is Ellipsis:
                return 0
            if isinstance(k, ndarray) and k.dtype.kind == "b":
                return builtins.max(k.ndim, 1)
            return 1

        used = sum(consumes(k) for k in key)
        if used > self.ndim:
            raise IndexError(f"too many indices for array: array is {self.ndim}-dimensional, but {used} were indexed")
        if n_ell:
            i = key.index(Ellipsis)
            key[i:i + 1] = [slice(None)] * (self.ndim - used)
        else:
            key.extend([slice(None)] * (self.ndim - used))
        return key

    @staticmethod
    def _is_adv(k):
        return isinstance(k, (ndarray, list))

    def _basic_view(self, key):
        off, shape, strides, ax = self._off, [], [], 0
        for k in key:
            if k is None:
                shape.append(1)
                strides.append(0)
                continue
            n, st = self.shape[ax], self._strides[ax]
            if isinstance(k, slice):
                start, stop, step = slice(_slice_index(k.start), _slice_index(k.stop), _slice_index(k.step)).indices(n)
                ln = len(range(start, stop, step))
                off += start * st
                shape.append(ln)
                strides.append(st * step)
            else:
                i = _as_index(k)
                if i < -n or i >= n:
                    raise IndexError(f"index {i} is out of bounds for axis {ax} with size {n}")
                if i < 0:
                    i += n
                off += i * st
            ax += 1
        return off, shape, strides

    def _adv_offsets(self, key):
        """Offsets + result shape for a key containing advanced indices."""
        # normalise advanced entries to integer index arrays
        norm, ax = [], 0
        for k in key:
            if k is None:
                norm.append(("new", None))
                continue
            if isinstance(k, list):
                k = asarray(k)
            if isinstance(k, ndarray):
                if k.dtype.kind == "b":
                    nd = builtins.max(k.ndim, 1)
                    if k.shape != self.shape[ax:ax + nd]:
                        raise IndexError(f"boolean index did not match indexed array along axis {ax}; size of axis is {self.shape[ax:ax+nd]} but size of corresponding boolean axis is {k.shape}")
                    sel = [i for i, b in zip(itertools.product(*[range(d) for d in k.shape]), k._items()) if b]
                    for j in range(nd):
                        norm.append(("adv", ndarray._from_list([_mk(S.int64, s[j]) for s in sel], (len(sel),), dtype(int)), ax + j))
                    ax += nd
                    continue
                if k.dtype.kind != "i":
                    raise IndexError("arrays used as indices must be of integer (or boolean) type")
                norm.append(("adv", k, ax))
            elif isinstance(k, slice):
                norm.append(("slice", k, ax))
            else:
                norm.append(("int", _as_index(k), ax))
            ax += 1
        adv = [e for e in norm if e[0] == "adv"]
        bshape = ()
        for e in adv:
            bshape = _bshape(bshape, e[1].shape)
        adv_idx = []
        for e in adv:
            n = self.shape[e[2]]
            vals = []
            for x in broadcast_to(e[1], bshape)._items():
                i = _as_index(x)
                if i < -n or i >= n:
                    raise IndexError(f"index {i} is out of bounds for axis {e[2]} with size {n}")
                vals.append(i + n if i < 0 else i)
            adv_idx.append(vals)
        # position of the broadcast dims: where the first advanced index is, if all advanced are adjacent; else first
        adv_pos = [i for i, e in enumerate(norm) if e[0] in ("adv", "int")]
        only_adv = [i for i, e in enumerate(norm) if e[0] == "adv"]
        adjacent = only_adv == list(range(only_adv[0], only_adv[-1] + 1)) and not builtins.any(
            norm[i][0] == "int" for i in range(len(norm)) if i not in only_adv and only_adv[0] < i < only_adv[-1])
        # basic part
        base_off = self._off
        dims = []  # list of (kind, payload)
        for e in norm:
            if e[0] == "new":
                dims.append(("len", 1, 0))
            elif e[0] == "slice":
                n, st = self.shape[e[2]], self._strides[e[2]]
                k = e[1]
                start, stop, step = slice(_slice_index(k.start), _slice_index(k.stop), _slice_index(k.step)).indices(n)
                base_off += start * st
                dims.append(("len", len(range(start, stop, step)), st * step))
            elif e[0] == "int":
                n, st = self.shape[e[2]], self._strides[e[2]]
                i = e[1]
                if i < -n or i >= n:
                    raise IndexError(f"index {i} is out of bounds for axis {e[2]} with size {n}")
                base_off += (i + n if i < 0 else i) * st
            else:
                dims.append(("adv",))
        nb = _prod(bshape)
        adv_offs = [builtins.sum(adv_idx[j][t] * self._strides[adv[j][2]] for j in range(len(adv))) for t in range(nb)]
        # assemble result: replace first 'adv' marker by broadcast dims, drop the others
        out_dims, seen = [], False
        for d in dims:
            if d[0] == "adv":
                if not seen:
                    out_dims.append(("B",))
                    seen = True
            else:
                out_dims.append(d)
        if not adjacent:
            out_dims = [("B",)] + [d for d in out_dims if d[0] != "B"]
        shape = []
        for d in out_dims:
            if d[0] == "B":
                shape.extend(bshape)
            else:
                shape.append(d[1])
        # enumerate offsets in C order of result
        offs = [base_off]
        for d in out_dims:
            if d[0] == "B":
                offs = [o + a for o in offs for a in adv_offs]
            else:
                offs = [o + i * d[2] for o in offs for i in range(d[1])]
        return offs, tuple(shape)

    def __getitem__(self, key):
        if isinstance(key, tuple) and len(key) == 0:
            return self._first() if not self.shape else self
        key = self._expand_key(key)
        if builtins.any(self._is_adv(k) for k in key):
            offs, shape = self._adv_offsets(key)
            b = self._buf
            return ndarray._from_list([b[o] for o in offs], shape, self.dtype)
        off, shape, strides = self._basic_view(key)
        if not shape:
            return self._buf[off]
        return ndarray._mk(self._buf, shape, self.dtype, off, strides, base=self)

    def __setitem__(self, key, value):
        key = self._expand_key(key)
        c = self.dtype.type
        # merged form for full boolean-mask assignment of a scalar (no fork)
        if len(key) == 1 and isinstance(key[0], ndarray) and key[0].dtype.kind == "b" and key[0].shape == self.shape \
                and not isinstance(value, (ndarray, list, tuple)):
            val = cast_scalar(value, c)
            for o, m in zip(self._offsets(), key[0]._items()):
                self._buf[o] = cast_scalar(S.ite(m, val, self._buf[o]), c)
            return
        if builtins.any(self._is_adv(k) for k in key):
            offs, shape = self._adv_offsets(key)
        else:
            off, shape, strides = self._basic_view(key)
            offs = ndarray._mk(self._buf, shape, self.dtype, off, strides)._offsets()
        if isinstance(value, (list, tuple)):
            value = asarray(value)
        if isinstance(value, ndarray):
            vs = value.shape
            while len(vs) > len(shape) and vs and vs[0] == 1:
                vs = vs[1:]
            try:
                vals = broadcast_to(value.reshape(vs) if vs != value.shape else value, shape)._items()
            except ValueError:
                raise ValueError(f"could not broadcast input array from shape {value.shape} into shape {tuple(shape)}")
        else:
            v = cast_scalar(value, c)
            vals = [v] * len(offs)
        for o, v in zip(offs, vals):
            self._buf[o] = v if type(v) is c else cast_scalar(v, c)

    # -- element-wise
    def _ew(self, o, f, reflected=False):
        if isinstance(o, (list, tuple)):
            o = asarray(o)
        if isinstance(o, ndarray):
            shape = _bshape(self.shape, o.shape)
            xs, ys = broadcast_to(self, shape)._items(), broadcast_to(o, shape)._items()
            if reflected:
                xs, ys = ys, xs
            items = [f(x, y) for x, y in zip(xs, ys)]
            hint = (self.dtype.type, o.dtype.type)
        else:
            ow = wrap(o)
            if ow is None:
                return NotImplemented
            if reflected:
                items = [f(ow, x) for x in self._items()]
            else:
                items = [f(x, ow) for x in self._items()]
            shape = self.shape
            hint = (self.dtype.type, type(ow))
        return items, shape, hint

    def _arith(self, o, op, f, reflected=False):
        r = self._ew(o, f, reflected)
        if r is NotImplemented:
            return r
        items, shape, (a, b) = r
        try:
            cls = S.result_cls(a, b, op)
        except TypeError:
            raise
        if cls._py:
            cls = S.int64 if cls._kind == "i" else S.float64
        items = [x if type(x) is cls else cast_scalar(wrap(x), cls) for x in items]
        return ndarray._from_list(items, shape, dtype(cls))

    def __add__(self, o):
        return self._arith(o, "add", lambda x, y: x + y)

    def __radd__(self, o):
        return self._arith(o, "add", lambda x, y: x + y, True)

    def __sub__(self, o):
        return self._arith(o, "sub", lambda x, y: x - y)

    def __rsub__(self, o):
        return self._arith(o, "sub", lambda x, y: x - y, True)

    def __mul__(self, o):
        return self._arith(o, "mul", lambda x, y: x * y)

    def __rmul__(self, o):
        return self._arith(o, "mul", lambda x, y: x * y, True)

    def __truediv__(self, o):
        return self._arith(o, "div", lambda x, y: x / y)

    def __rtruediv__(self, o):
        return self._arith(o, "div", lambda x, y: x / y, True)

    def __floordiv__(self, o):
        return self._arith(o, "floordiv", lambda x, y: x // y)

    def __mod__(self, o):
        return self._arith(o, "mod", lambda x, y: x % y)

    def __rmod__(self, o):
        return self._arith(o, "mod", lambda x, y: x % y, True)

    def __pow__(self, o):
        r = self._ew(o, lambda x, y: x**y)
        if r is NotImplemented:
            return r
        items, shape, (a, b) = r
        cls = type(items[0]) if items else S.result_cls(a, b, "add")
        if cls._py:
            cls = S.int64 if cls._kind == "i" else S.float64
        cls2 = cls
        for x in items:
            if isinstance(x, generic) and not type(x)._py:
                cls2 = type(x)
                break
        items = [x if type(x) is cls2 else cast_scalar(wrap(x), cls2) for x in items]
        return ndarray._from_list(items, shape, dtype(cls2))

    def __rpow__(self, o):
        r = self._ew(o, lambda x, y: x**y, True)
        items, shape, (a, b) = r
        cls = S.float64 if builtins.any(wrap(x)._kind == "f" for x in items) or not items else S.int64
        items = [cast_scalar(wrap(x), cls) for x in items]
        return ndarray._from_list(items, shape, dtype(cls))

    def __neg__(self):
        return ndarray._from_list([-x for x in self._items()], self.shape, self.dtype)

    def __pos__(self):
        return self.copy()

    def __abs__(self):
        return ndarray._from_list([abs(x) for x in self._items()], self.shape, self.dtype)

    def _inplace(self, o, op, f):
        if isinstance(o, (list, tuple)):
            o = asarray(o)
        ocls = o.dtype.type if isinstance(o, ndarray) else type(wrap(o)) if wrap(o) is not None else None
        if ocls is None:
            raise TypeError(f"unsupported operand type(s) for in-place {op}")
        res = S.result_cls(self.dtype.type, ocls, op)
        if res._py:
            res = S.int64 if res._kind == "i" else S.float64
        me = self.dtype.type
        if not _same_kind(res, me):
            raise UFuncTypeError(
                f"Cannot cast ufunc '{op}' output from dtype('{res._name}') to dtype('{me._name}') with casting rule 'same_kind'")
        if isinstance(o, ndarray):
            shape = _bshape(self.shape, o.shape)
            if shape != self.shape:
                raise ValueError(f"non-broadcastable output operand with shape {self.shape} doesn't match the broadcast shape {shape}")
            ys = broadcast_to(o, shape)._items()
        else:
            ys = [wrap(o)] * self.size
        offs = self._offsets()
        new = [cast_scalar(wrap(f(self._buf[p], y)), me) for p, y in zip(offs, ys)]
        for p, v in zip(offs, new):
            self._buf[p] = v
        return self

    def __iadd__(self, o):
        return self._inplace(o, "add", lambda x, y: x + y)

    def __isub__(self, o):
        return self._inplace(o, "sub", lambda x, y: x - y)

    def __imul__(self, o):
        return self._inplace(o, "mul", lambda x, y: x * y)

    def __itruediv__(self, o):
        return self._inplace(o, "div", lambda x, y: x / y)

    def _cmp(self, o, f, reflected=False):
        r = self._ew(o, f, reflected)
        if r is NotImplemented:
            return r
        items, shape, _ = r
        items = [x if isinstance(x, generic) else _mk(S.bool_, bool(x)) for x in items]
        return ndarray._from_list(items, shape, dtype(bool))

    def __lt__(self, o):
        return self._cmp(o, lambda x, y: x < y)

    def __le__(self, o):
        return self._cmp(o, lambda x, y: x <= y)

    def __gt__(self, o):
        return self._cmp(o, lambda x, y: x > y)

    def __ge__(self, o):
        return self._cmp(o, lambda x, y: x >= y)

    def __eq__(self, o):
        if o is None:
            return ndarray._from_list([_mk(S.bool_, False)] * self.size, self.shape, dtype(bool))
        if isinstance(o, (str, dict, type)):
            return False
        try:
            return self._cmp(o, lambda x, y: x == y)
        except ValueError:
            return False

    def __ne__(self, o):
        if o is None:
            return ndarray._from_list([_mk(S.bool_, True)] * self.size, self.shape, dtype(bool))
        if isinstance(o, (str, dict, type)):
            return True
        return self._cmp(o, lambda x, y: x != y)

    def __invert__(self):
        return ndarray._from_list([wrap(~x) for x in self._items()], self.shape, self.dtype)

    def __and__(self, o):
        return self._cmp(o, lambda x, y: x & y)

    __rand__ = __and__

    def __or__(self, o):
        return self._cmp(o, lambda x, y: x | y)

    __ror__ = __or__

    def __xor__(self, o):
        return self._cmp(o, lambda x, y: x ^ y)

    # -- reductions
    def _reduce(self, axis, f, init, out_cls=None, keepdims=False):
        cls = out_cls or self.dtype.type
        if axis is None:
            items = self._items()
            return f(items) if items else init(cls)
        axes = (axis,) if not isinstance(axis, (tuple, list)) else tuple(axis)
        axes = tuple(_norm_axis(_axis_arg(a), self.ndim) for a in axes)
        keep = [i for i in range(self.ndim) if i not in axes]
        out_shape = tuple(self.shape[i] for i in keep)
        groups = {}
        items = self._items()
        for idx, x in zip(itertools.product(*[range(d) for d in self.shape]), items):
            groups.setdefault(tuple(idx[i] for i in keep), []).append(x)
        out = []
        for k in itertools.product(*[range(d) for d in out_shape]):
            g = groups.get(k)
            out.append(f(g) if g else init(cls))
        if not out_shape:
            return out[0]
        out = [wrap(x) for x in out]
        c = type(out[0]) if out else cls
        return ndarray._from_list(out, out_shape, dtype(c))

    def sum(self, axis=None, dtype=None, **kw):
        cls = self.dtype.type
        if cls._kind in "bi":
            cls = S.uint64 if getattr(cls, "_unsigned", False) else S.int64   # numpy accumulates small integers in the platform (u)int

        def f(items):
            r = cast_scalar(items[0], cls)
            for x in items[1:]:
                r = r + x
            return cast_scalar(r, cls)

        r = self._reduce(axis, f, _zero, cls)
        if dtype is not None:
            r = r.astype(dtype)
        return r

    def prod(self, axis=None, **kw):
        cls = self.dtype.type
        if cls._kind in "bi":
            cls = S.uint64 if getattr(cls, "_unsigned", False) else S.int64   # numpy accumulates small integers in the platform (u)int

        def f(items):
            r = cast_scalar(items[0], cls)
            for x in items[1:]:
                r = r * x
            return cast_scalar(r, cls)

        return self._reduce(axis, f, _one, cls)

    def cumsum(self, axis=None, dtype=None, **kw):
        cls = self.dtype.type
        if cls._kind in "bi":
            cls = S.uint64 if getattr(cls, "_unsigned", False) else S.int64   # numpy accumulates small integers in the platform (u)int
        if dtype is not None:
            cls = globals()["dtype"](dtype).type
        if axis is None:
            out, acc = [], _zero(cls)
            for x in self._items():
                acc = cast_scalar(acc + x, cls)
                out.append(acc)
            return ndarray._from_list(out, (self.size,), globals()["dtype"](cls))
        axis = _norm_axis(_axis_arg(axis), self.ndim)
        res = self.astype(cls)
        for idx in itertools.product(*[range(d) if i != axis else [0] for i, d in enumerate(self.shape)]):
            acc = _zero(cls)
            for j in range(self.shape[axis]):
                k = idx[:axis] + (j,) + idx[axis + 1:]
                acc = cast_scalar(acc + res[k], cls)
                res[k] = acc
        return res

    def min(self, axis=None, **kw):
        return self._reduce(axis, lambda it: _fold_minmax(it, True), _raise_empty("minimum"))

    def max(self, axis=None, **kw):
        return self._reduce(axis, lambda it: _fold_minmax(it, False), _raise_empty("maximum"))

    def any(self, axis=None, **kw):
        def f(items):
            r = False
            for x in items:
                r = S._logic(r, x != 0 if wrap(x)._kind != "b" else x, "or")
                if r is True:
                    return True
            return r

        return self._reduce(axis, f, lambda c: False, S.bool_)

    def all(self, axis=None, **kw):
        def f(items):
            r = True
            for x in items:
                r = S._logic(r, x != 0 if wrap(x)._kind != "b" else x, "and")
                if r is False:
                    return False
            return r

        return self._reduce(axis, f, lambda c: True, S.bool_)

    def mean(self, axis=None, **kw):
        n = self.size if axis is None else self.shape[_norm_axis(axis, self.ndim)]
        return self.sum(axis) / n

    def std(self, axis=None, **kw):
        from . import npfuncs

        return npfuncs.sqrt(self.var(axis))

    def var(self, axis=None, **kw):
        m = self.mean()
        d = self - m
        return (d * d).mean()

    def round(self, decimals=0):
        return ndarray._from_list([S._round(x, decimals) for x in self._items()], self.shape, self.dtype)

    def argmin(self, axis=None):
        from . import npfuncs

        return npfuncs.argmin(self)

    def argmax(self, axis=None):
        from . import npfuncs

        return npfuncs.argmax(self)

    def argsort(self, **kw):
        from . import npfuncs

        return npfuncs.argsort(self)

    def searchsorted(self, v, side="left"):
        from . import npfuncs

        return npfuncs.searchsorted(self, v, side)

    def dot(self, o):
        from . import npfuncs

        return npfuncs.dot(self, o)

    def nonzero(self):
        raise ShimUnsupported("ndarray.nonzero")


def _raise_empty(name):
    def f(cls):
        raise ValueError(f"zero-size array to reduction operation {name} which has no identity")

    return f


def _fold_minmax(items, is_min):
    r = items[0]
    for x in items[1:]:
        # numpy propagates NaN: result is NaN if any operand is
        c = (x < r) if is_min else (x > r)
        v = S.ite(c, x, r)
        if isinstance(v, generic) and (getattr(x, "nan", None) is not None or getattr(r, "nan", None) is not None):
            v = _mk(type(v), v.v, S._or(getattr(x, "nan", None), getattr(r, "nan", None)))
        else:
            xs, rs = wrap(x), wrap(r)
            if (not xs.sym and S._conc_special(xs) == "nan") or (not rs.sym and S._conc_special(rs) == "nan"):
                v = _mk(type(rs), S.NAN)
        r = v
    return r


def _axis_arg(a):
    """An `axis=` argument: numpy raises TypeError (not IndexError) for anything that is not an integer."""
    try:
        return _as_index(a)
    except IndexError:
        raise TypeError(f"'{type(a).__name__}' object cannot be interpreted as an integer")


def _norm_axis(a, ndim):
    if a < -ndim or a >= ndim:
        raise AxisError(f"axis {a} is out of bounds for array of dimension {ndim}")
    return a + ndim if a < 0 else a


def _same_kind(res, target):
    order = {"b": 0, "u": 1, "i": 2, "f": 3}
    return order[dtype(res).kind] <= order[dtype(target).kind]


def _bshape(a, b):
    n = builtins.max(len(a), len(b))
    a2 = (1,) * (n - len(a)) + tuple(a)
    b2 = (1,) * (n - len(b)) + tuple(b)
    out = []
    for x, y in zip(a2, b2):
        if x == y:
            out.append(x)
        elif x == 1:
            out.append(y)
        elif y == 1:
            out.append(x)
        else:
            raise ValueError(f"operands could not be broadcast together with shapes {tuple(a)} {tuple(b)}")
    return tuple(out)


def broadcast_to(arr, shape):
    shape = tuple(shape)
    if arr.shape == shape:
        return arr
    n = len(shape)
    if arr.ndim > n:
        raise ValueError("input operand has more dimensions than allowed by the axis remapping")
    src = (1,) * (n - arr.ndim) + arr.shape
    sst = (0,) * (n - arr.ndim) + arr._strides
    strides = []
    for d, s, st in zip(shape, src, sst):
        if s == d:
            strides.append(st)
        elif s == 1:
            strides.append(0)
        else:
            raise ValueError(f"operands could not be broadcast together with remapped shapes [original->remapped]: {arr.shape} and requested shape {shape}")
    return ndarray._mk(arr._buf, shape, arr.dtype, arr._off, strides, base=arr)


# ----------------------------------------------------------------------------- construction
def _flatten_nested(obj):
    """-> (flat list of scalars/python numbers, shape)"""
    if isinstance(obj, ndarray):
        return obj._items(), obj.shape
    if isinstance(obj, generic):
        return [obj], ()
    if isinstance(obj, (bool, int, float)):
        return [obj], ()
    if isinstance(obj, range):
        obj = list(obj)
    if isinstance(obj, (list, tuple)):
        if not obj:
            return [], (0,)
        parts = [_flatten_nested(x) for x in obj]
        shapes = {p[1] for p in parts}
        if len(shapes) != 1:
            raise ValueError(
                "setting an array element with a sequence. The requested array has an inhomogeneous shape after "
                f"{1} dimensions. The detected shape was ({len(obj)},) + inhomogeneous part.")
        return [y for p in parts for y in p[0]], (len(obj),) + parts[0][1]
    if hasattr(obj, "__array__") and not isinstance(obj, type):
        a = obj.__array__()
        if isinstance(a, ndarray):
            return a._items(), a.shape
    if obj is None:
        raise _ObjectArray("None")
    if isinstance(obj, str):
        raise _ObjectArray("str")
    raise _ObjectArray(type(obj).__name__)


class _ObjectArray(Exception):
    pass


def _infer_cls(items):
    cls = None
    weak = None
    for x in items:
        if isinstance(x, generic):
            c = type(x)
        elif isinstance(x, bool):
            c = S.bool_
        elif isinstance(x, int):
            c = S.pyint
        elif isinstance(x, float):
            c = S.pyfloat
        else:
            raise TypeError(f"unsupported array element {type(x).__name__}")
        if c._py:
            if weak is None or (c._kind == "f"):
                weak = c
        else:
            cls = c if cls is None else S.promote_cls(cls, c)
    if cls is None or cls is S.bool_:
        if weak is not None:
            return S.float64 if weak._kind == "f" else S.int64
        return cls or S.float64
    if weak is not None and weak._kind == "f" and cls._kind == "i":
        return S.float64
    return cls


def asarray(obj, dtype=None, copy=None, **kw):
    dt = globals()["dtype"](dtype) if dtype is not None else None
    if isinstance(obj, ndarray):
        if dt is None or dt is obj.dtype:
            return obj.copy() if copy else obj
        return obj.astype(dt)
    try:
        flat, shape = _flatten_nested(obj)
    except _ObjectArray as e:
        if dt is not None and dt.kind in "if":
            if str(e) == "str":
                raise ValueError(f"could not convert string to float: {obj!r}")
            raise TypeError(f"float() argument must be a string or a real number, not '{e}'")
        raise ShimUnsupported(f"object array from {e}")
    if dt is None:
        dt = globals()["dtype"](_infer_cls(flat)) if flat else globals()["dtype"](float)
    c = dt.type
    return ndarray._from_list([x if type(x) is c else cast_scalar(x, c) for x in flat], shape, dt)


def array(obj, dtype=None, copy=True, **kw):
    a = asarray(obj, dtype)
    if a is obj and copy:
        return a.copy()
    return a
