#!/bin/sh
# Run the repository's pinned test suite (guard off) and print the summary line.
cd /repo && /venv/bin/python -m pytest -ra -q -p no:cacheprovider --timeout=900 --continue-on-collection-errors "$@" 2>&1 | tail -4
