#!/bin/sh
# tools/run_all.sh [quick|thorough] [ids...] - run every registered check, print one line per property
# NOEV=1 -> do not write evidence files (for background timing runs)
T=${1:-quick}; [ $# -gt 0 ] && shift
cd "$(dirname "$0")/.." || exit 2
IDS=${*:-$(python3 -c "import json;print(' '.join(c['property_id'] for c in json.load(open('MANIFEST.json'))['checks']))")}
EXTRA=""; [ -n "$NOEV" ] && EXTRA="--no-evidence"
for p in $IDS; do
  s=$(date +%s); ./check $p --tier $T $EXTRA > /tmp/all_${T}_$p.log 2>&1; rc=$?; e=$(date +%s)
  echo "$p exit=$rc wall=$((e-s))s $(grep -c '^VIOLATION' /tmp/all_${T}_$p.log) violations, $(grep -c '^KNOWN-FINDING' /tmp/all_${T}_$p.log) known, $(grep -c '^INCONCLUSIVE' /tmp/all_${T}_$p.log) inconclusive | $(tail -1 /tmp/all_${T}_$p.log | cut -c1-160)"
done
