#!/bin/sh
# tools/run_all.sh [quick|thorough] [ids...] - run every registered check, print one line per property
T=${1:-quick}; shift
IDS=${*:-$(python3 -c "import json;print(' '.join(c['property_id'] for c in json.load(open('/verif/MANIFEST.json'))['checks']))")}
cd /verif
for p in $IDS; do
  s=$(date +%s); ./check $p --tier $T > /tmp/all_$p.log 2>&1; rc=$?; e=$(date +%s)
  echo "$p exit=$rc wall=$((e-s))s $(grep -c '^VIOLATION' /tmp/all_$p.log) violations, $(grep -c '^KNOWN-FINDING' /tmp/all_$p.log) known, $(grep -c '^INCONCLUSIVE' /tmp/all_$p.log) inconclusive"
done
