"""Regenerate MANIFEST.json from the table below (keeps checks / not_applicable in sync)."""
import json

CLAIMED = {
    "C01": ("Bounded symbolic model checking of the real h1 construction path (extract_1d_array, calculate_1d_bins, StaticBinning, calculate_1d_frequencies, Histogram1D.__init__): for every enumerated size and option combination z3 decides on every path that contents, squared errors, under/overflow, accounting and dtype equal the reference sums for ALL real values of data, weights and edges (NaN flags included).",
            "N<=3 values, M<=2 bins (quick); N<=4, M<=3, more spec forms and dtypes (thorough)", "DESIGN.md 5/C01"),
    "C02": ("Bounded symbolic model checking of h / h2 / h3 (extract_nd_array, calculate_nd_bins, calculate_nd_frequencies with mask/ix_ selection, HistogramND construction): every cell, squared error, missed and total equals the reference sums for all values; per-axis right-edge inclusion, gaps and asymmetric shapes make axis mix-ups visible.",
            "N<=2 rows, D=2..4 with <=2 bins per axis (quick); N<=3 (thorough); numpy.histogramdd is part of the numpy model (its documented contract)", "DESIGN.md 5/C02"),
    "C03": ("Bounded symbolic model checking of Histogram1D/HistogramND fill, fill_n and find_bin over every listed call structure of K values: final contents/errors/underflow/overflow/missed equal the reference sums AND the real batch construction; fill/find_bin return the reference index; find_bin changes nothing; keep_missed=False leaves everything untouched.",
            "K<=2 values, M<=2 bins, D=2 (quick); K<=3, M<=3, D<=3 (thorough)", "DESIGN.md 5/C03"),
    "C09": ("Bounded symbolic model checking of HistogramND.projection (by index and by name, every order, chains), Histogram2D.T, accumulate and the refusals: marginal contents/errors2 equal the sums over the dropped axes for ALL symbolic contents, bins and names are those of the kept axes in original order, totals conserved, parent untouched; plus h(data).projection(k) == h1(data[:,k]) for rows inside the bins.",
            "shapes up to 2x3x2 and 2x1x2x2, every non-empty proper axis subset; N<=2 rows for the data-driven part (quick); more shapes and all orders (thorough)", "DESIGN.md 5/C09"),
    "C10": ("Bounded symbolic model checking of merge_bins (amount as a symbolic integer forked over its range, fractional amount, min_frequency as a symbolic threshold; 1D with/without a gap, 2D/3D per axis and all axes; inplace or not): new bins are unions of adjacent old bins with the stated edges, contents/errors2 are the run sums, totals/missed/other axes/the original are unchanged, gap-crossing and fractional amounts refused.",
            "M<=4 bins 1D, shapes 2x3/3x2 (quick); M<=5, 2x4, 2x2x3 (thorough)", "DESIGN.md 5/C10"),
    "C06": ("Bounded symbolic model checking of __mul__/__rmul__/__imul__/__truediv__/__itruediv__, normalize, Histogram2D.partial_normalize, HistogramCollection.normalize_bins/normalize_all and Statistics.__mul__ with symbolic contents, errors2, missed, statistics and a symbolic scalar (python and numpy, int and float, sign free): linearity of contents (c) and errors2 (c^2), commutation, (h*c)/c, chains, operand untouched, totals 1/100, row/column/share sums, statistics invariance, and the refusals (h*h, h/h, c/h, arrays, content-negating factors).",
            "1D M<=2 (quick) / M<=3, 2D 2x2 (quick) / 1x3, 2x1x2, 2x3 (thorough); QF_NRA", "DESIGN.md 5/C06"),
    "C05": ("Bounded symbolic model checking of __add__/__radd__/__iadd__, has_same_bins, FixedWidthBinning.adapt/_adapt/_force_new_min_max, Statistics.__add__, builtin sum and HistogramCollection.sum: field-by-field commutativity and associativity on arbitrary histograms (symbolic contents, errors2, missed, statistics, mixed dtypes), operands untouched, adaptive union on the common grid with symbolic width/shift/offsets, refusals, h1(A)+h1(B) against the reference over A and B, and chunk invariance of adaptive sums (the reduction the dask helper runs).",
            "M<=2 bins, 2-3 operands, adaptive bin counts 0..2, |A|<=2,|B|=1, N<=2 chunked values (quick); M<=3, counts 0..3, N<=3 (thorough). Real dask scheduling is outside (see C17)", "DESIGN.md 5/C05"),
    "C14": ("Bounded symbolic model checking of the statistics block of calculate_1d_frequencies, Histogram1D.fill/fill_n/copy, Statistics.__add__/__mul__/mean/variance/std: the recorded sum, sum2, weight, min, max (and median after unweighted construction) equal the weighted sums over the raw symbolic data for every way of entering them; mean/variance/std are proved to be the population moments as functions of those fields; invalidation (NaN) after subtraction, array arithmetic, bare frequencies; empty histogram.",
            "N<=2 values (quick) / N<=3, M=2 bins; QF_NRA degree<=3", "DESIGN.md 5/C14"),
    "C16": ("Bounded symbolic model checking of densities, bin_sizes, total_width/total_size, left/right/centre/width properties (per-axis and mesh forms), cumulative_frequencies, and bin_sizes of the seven transformed classes: for all symbolic irregular edges and contents densities*bin_sizes = frequencies, bin_sizes equals the statement's measure formula (cos uninterpreted with sound axioms), measures are additive under merging of adjacent bins and sum to the measure of the covered region for full angular ranges.",
            "M<=3 bins 1D, shapes 2x2 / 2x1x2 (quick) + 3x2 / 2x2x2 (thorough), <=2 bins per axis for transformed classes; QF_NRA + UF", "DESIGN.md 5/C16"),
    "C11": ("Bounded symbolic model checking of Histogram1D.__getitem__/select and HistogramND.__getitem__/select with symbolic indices (ints, slice bounds, boolean mask entries, index array entries are symbolic and forked over their range): the result's bins/contents/errors2 are the Python/numpy-indexed lists of the symbolic originals, ints drop their axis and name, contiguous 1D slices conserve total+underflow+overflow, non-contiguous selections report NaN, refusals (reversed, wrong mask size, too many / out-of-range indices), source untouched.",
            "1D M=3 (thorough: also M=2,4), 2D 2x3, 3D 2x2x2; explicit positive step and unsorted index arrays are accepted as either refused or well-formed (stated leniency)", "DESIGN.md 5/C11"),
    "C12": ("Bounded symbolic model checking of the (derivation x later mutation x mutated side) matrix over 1D/2D, static and adaptive histograms: for every listed derivation (copy, + - * /, normalize, merge_bins, slices/masks/index arrays, T, partial_normalize, accumulate, projection, integer/slice select, JSON round trip, sum()) and every later mutation (fill, fill_n incl. adaptive growth by a symbolic number of bins, += *= /=, dtype change, metadata edit, in-place merge) the snapshot of the object NOT mutated is term-equal before and after for all symbolic contents/arguments, and both objects stay well-formed; copy() equality and the usable empty copy. The numpy model implements views, so memory sharing through slices is visible.",
            "M=3 bins 1D, 2x2 2D, growth by <=3 bins, ~390 (derivation, mutation, side) instances (quick); thorough adds the remaining combinations", "DESIGN.md 5/C12"),
    "C08": ("Bounded symbolic model checking of save_json/parse_json/load_json, create_from_dict, require_compatible_version, find_subclass, to_dict/_kwargs_from_dict/from_dict of every histogram class and every binning class, HistogramCollection.to_dict/from_dict: with symbolic contents, errors2, missed values, binning parameters the parsed object has the same class, per-axis binning class/parameters/right-edge flag/adaptivity, term-equal edges/contents/errors2/missed, equal dtype, keep_missed and metadata, compares == and re-serialises to the identical tree; version gate for symbolic release numbers via the real packaging comparison.",
            "2 bins per axis; classes 1D, 2D, 3D, the seven transformed classes, collection of 2; seven binning kinds; json text layer and open() are stubs (tree in = tree out)", "DESIGN.md 5/C08"),
    "C13": ("Bounded symbolic model checking of dtype inference (HistogramBase.__init__, h1 / h facades, calculate_*_frequencies), _coerce_dtype/set_dtype/_eval_dtype and the coercions in fill, fill_n, + - += -= * / normalize merge over all supported dtypes: after the operation h.dtype == frequencies.dtype == errors2.dtype, the dtype is numpy's promotion of the operands, values equal the exact reference (no truncation), an explicit dtype change is accepted iff lossless by the statement's rule (symbolic contents around the type limits and with symbolic fractional parts) and otherwise refused with nothing changed.",
            "2 bins 1D / 2x1 2D, one operation per instance (thorough: all dtype pairs); contents are symbolic integers, float weights/factors symbolic multiples of 1/4, so every value is exact in every float type (float16/32 rounding itself is outside R-mode)", "DESIGN.md 5/C13"),
    "C18": ("Bounded symbolic model checking of one inductive step from an arbitrary valid state: for 1D (static int/float, adaptive) and 2D histograms with symbolic contents/errors2/missed, each call of a pool of ~50 valid and invalid public operations (incompatible / non-histogram operands, wrong data or weight shapes, invalid dtype / weight / axis / index / merge amount, over-subtraction, negative factors, bad setters, collection misuse) with symbolic arguments leaves the histogram well-formed (matching shapes, errors2 >= 0, contents >= 0), is refused where the statement says so, and if it raises leaves every content per bin interval, error2 and missed count term-equal to before. Histories are sequences of such steps; thorough adds all two-step histories.",
            "2 bins 1D, 2x2 2D; one step (quick), two steps (thorough)", "DESIGN.md 5/C18"),
    "C04": ("Two encodings of the same real code (FixedWidthBinning._force_bin_existence(_single), numpy_bins, first/last_edge, HistogramBase._reshape_data/_apply_bin_map, adaptive branches of fill/fill_n, find_bin): (1) exact-real inductive step from an ARBITRARY grid state (symbolic width, shift, offset, contents) with one fill / fill_n of symbolic values: grid invariant, every value inside a bin, exact span, old contents attached to their intervals, totals, nothing missed, 1D..3D; (2) binary64 FP-mode (z3 FloatingPoint, RNE) execution of the same kernel for constant widths with a symbolic binary64 value: the value filled is inside a bin. (2) is what finds the decimal-literal losses (width 0.1).",
            "(1) bin_count 0..2 (quick) / 0..3, values within 3 (quick) / 4 widths, 1..3 values; (2) widths 0.5, 1.0, 0.25 with |v| <= 8 widths (quick); 9 widths incl. 0.1, 0.2, 0.3, 1e-3 with |v| <= 30 widths (thorough)", "DESIGN.md 5/C04"),
    "C07": ("Bounded symbolic model checking of the binning classes and factories: acceptance of ARBITRARY symbolic edge arrays iff strictly rising and non-overlapping; agreement of bins / numpy_bins / numpy_bins_with_mask / bin_count / first,last edge / is_consecutive / is_regular / copy / == / slicing / as_static / as_fixed_width for Static (consecutive, gapped), Numpy, FixedWidth, Exponential binnings with symbolic parameters; numpy_binning = start + i*(stop-start)/k covering the data; fixed_width / integer binnings on the grid, covering min and max minimally, integer bins centred on integers; quantile edges = order statistics, ties refused; pretty widths in {1,2,2.5,5}*10^k nearest in log scale (log10/ln uninterpreted with order axioms); sqrt / sturges / rice / default bin-count rules for all n in [1,1024]; calculate_1d_bins / calculate_nd_bins dispatch and refusals.",
            "M<=3 bins, N<=2 (quick) / N<=3 data values, |data| <= 50, widths in [4,64]; astropy-based methods, doane, exponential_binning(data) and bit-exact agreement with numpy.linspace are outside", "DESIGN.md 5/C07"),
    "C15": ("Bounded symbolic model checking of TransformedHistogramMixin (transform, find_bin, fill, fill_n, projection, _validate_source_dimension), every _transform_correct_dimension, the seven facade functions and extract_transformed_data: transform(p) for a symbolic Cartesian point satisfies r >= 0, r^2 = x^2+y^2(+z^2), phi = atan2(y,x) folded into [0,2pi], theta = atan2(hypot(x,y), z) in [0,pi], z unchanged (hypot exact, atan2 uninterpreted with sound axioms, so swapped or missing arguments are satisfiable differences); facade construction, fill, fill_n, find_bin and transformed=True entry put a symbolic point into the same, reference bin for symbolic bins; projections have the special class, marginal contents and surface radius; wrong source dimensionality refused.",
            "one point (and a 2-row array for transform), 2 bins per axis; witnesses are replayed on points lying on a coordinate axis (where every transcendental value is fixed by the axioms and equals numpy's); numeric accuracy of arctan2/hypot and signed zeros are outside", "DESIGN.md 5/C15"),
}

REASONS_NOT_YET = "check not built yet (work in progress; see DESIGN.md section 8 build order)"


def main():
    props = [json.loads(l)["id"] for l in open("/verif/properties.jsonl")]
    checks = []
    for pid in props:
        if pid not in CLAIMED:
            continue
        text, bounds, ref = CLAIMED[pid]
        checks.append({
            "property_id": pid,
            "quick_cmd": f"./check {pid} --tier quick",
            "thorough_cmd": f"./check {pid} --tier thorough",
            "evidence_file": f"evidence/{pid}.json",
            "replay_cmd_template": f"./check {pid} --replay {{path}}",
            "engine": "symx",
            "level_claimed": {"category": "model_checking", "text": text, "design_ref": ref},
            "level_note": "Bounds: " + bounds + ". Trusted: z3; the numpy model symx.symnp (cross-validated on every explored path against real numpy by replaying a solver witness through the real library); exact-real arithmetic with a NaN flag instead of IEEE rounding.",
            "technique": "bounded symbolic execution of the real physt code over a numpy model; z3 (SMT) decides each path obligation; counterexamples replayed on the real library",
        })
    na = json.load(open("/verif/tools/not_applicable.json"))
    m = {
        "version": 1,
        "setup_cmd": "tools/ensure_env.sh",
        "hooks": {"guard": "none", "enable": "no hooks: physt is imported unmodified from /repo/src under a numpy model (DESIGN.md 3.4)",
                  "baseline_off_cmd": "cd /repo && /venv/bin/python -m pytest -ra -q -p no:cacheprovider --timeout=900 --continue-on-collection-errors",
                  "source_commits": [], "add_only": True},
        "engines": [{"name": "symx", "path": "symx/", "serves_properties": sorted(CLAIMED),
                     "kind_free_text": "bounded symbolic execution of the real physt modules (imported from /repo/src at run time) over a pure-Python numpy model whose scalars carry z3 terms; DFS path exploration by re-execution; z3 decides every path obligation; per-path witnesses and all counterexamples are replayed on real numpy + real physt"}],
        "checks": checks,
        "not_applicable": [{"property_id": p, "reason": na.get(p, REASONS_NOT_YET)} for p in props if p not in CLAIMED],
        "notes": "Exit codes of ./check: 0 held (KNOWN-FINDING lines possible), 1 VIOLATION (replayed on the real library), 3 inconclusive/engine error. known_findings.json lists recorded defects and 'fixed:' entries.",
    }
    json.dump(m, open("/verif/MANIFEST.json", "w"), indent=1)


if __name__ == "__main__":
    main()
