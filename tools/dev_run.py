"""Development helper: run instances of one harness symbolically (no replay)."""
import json, sys, time
sys.path.insert(0, "/verif")
from symx import loader
loader.load_symbolic()
import harness
harness.load_all()
from symx.api import HARNESSES
from symx.runner import run_instance

prop, tier = sys.argv[1], sys.argv[2]
pat = sys.argv[3] if len(sys.argv) > 3 else ""
tot = 0
for H in HARNESSES[prop]:
    for name, params in H.instances(tier):
        if pat not in name:
            continue
        r = run_instance(H, name, params)
        tot += r["paths"]
        print(name, "paths", r["paths"], "q", r["queries"], "wall", r["wall_s"], "viol", len(r["violations"]), "inc", r["inconclusive"][:2], r["outcomes"])
        for v in r["violations"][:3]:
            print("   VIOL", v["label"], v["inputs"], json.dumps(v["expected"])[:300])
            if v.get("tb"): print(v["tb"])
        if r.get("inconclusive_tb"): print(r["inconclusive_tb"])
print("total paths", tot)
