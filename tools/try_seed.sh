#!/bin/sh
# tools/try_seed.sh <seed-dir under /verif/seeded> [tier]  - apply a seeded change to /repo, run the demo and the check, undo.
D=/verif/seeded/$1; TIER=${2:-quick}
P=$(python3 -c "import json;print(json.load(open('$D/meta.json'))['property'])")
cd /repo || exit 2
git diff --quiet || { echo "repo not clean"; exit 2; }
git apply "$D/patch.diff" || { echo "patch does not apply"; exit 2; }
PYTHONPATH=/repo/src /venv/bin/python "$D/demo.py" >/dev/null 2>&1; echo "demo_with_change_exit=$?"
cd /verif && ./check "$P" --tier "$TIER" --no-evidence > "/tmp/seed_$1.log" 2>&1; echo "check_exit=$?"
grep -c "^VIOLATION" "/tmp/seed_$1.log" | sed 's/^/violations=/'
grep "^  instance" "/tmp/seed_$1.log" | sed 's/inputs=.*//' | awk '{print $2}' | sort | uniq -c | sort -rn | head -5
grep "^INCONCLUSIVE" "/tmp/seed_$1.log" | head -3 | cut -c1-300
git -C /repo checkout -- . 
PYTHONPATH=/repo/src /venv/bin/python "$D/demo.py" >/dev/null 2>&1; echo "demo_without_change_exit=$?"
