#!/bin/sh
# tools/try_seed_wt.sh <seed-dir under /verif/seeded> [tier]  - like try_seed.sh, but in a scratch worktree of /repo
# (VERIF_REPO_SRC points the loader and the concrete twin at it), so that /repo itself is never touched and trials can run in parallel.
D=/verif/seeded/$1; TIER=${2:-quick}
P=$(python3 -c "import json;print(json.load(open('$D/meta.json'))['property'])")
WT=/tmp/seedwt_$1
git -C /repo worktree remove --force "$WT" 2>/dev/null
git -C /repo worktree add --detach "$WT" HEAD >/dev/null 2>&1 || { echo "worktree failed"; exit 2; }
PYTHONPATH=$WT/src /venv/bin/python "$D/demo.py" >/dev/null 2>&1; echo "demo_without_change_exit=$?"
git -C "$WT" apply "$D/patch.diff" || { echo "patch does not apply"; git -C /repo worktree remove --force "$WT"; exit 2; }
PYTHONPATH=$WT/src /venv/bin/python "$D/demo.py" >/dev/null 2>&1; echo "demo_with_change_exit=$?"
cd /verif && VERIF_REPO_SRC=$WT/src ./check "$P" --tier "$TIER" --no-evidence > "/tmp/seed_$1.log" 2>&1; echo "check_exit=$?"
grep -c "^VIOLATION" "/tmp/seed_$1.log" | sed 's/^/violations=/'
grep "^  instance" "/tmp/seed_$1.log" | sed 's/inputs=.*//' | awk '{print $2}' | sort | uniq -c | sort -rn | head -5
grep "^INCONCLUSIVE" "/tmp/seed_$1.log" | head -3 | cut -c1-300
git -C /repo worktree remove --force "$WT"
