#!/bin/sh
# Idempotent: overlay venv /verif/.venv = /venv (repo deps: numpy, pandas, ...) + z3-solver wheel.
# Nothing is fetched; wheels come from /opt/veriftools/wheels.
set -e
V=/verif/.venv
if [ -x "$V/bin/python" ] && "$V/bin/python" -c "import z3, numpy" >/dev/null 2>&1; then
  exit 0
fi
rm -rf "$V"
/venv/bin/python -m venv "$V"
SP=$("$V/bin/python" -c "import sysconfig; print(sysconfig.get_paths()['purelib'])")
echo "import site; site.addsitedir('/venv/lib/python3.12/site-packages')" > "$SP/_verif_overlay.pth"
PIP_NO_INDEX=1 "$V/bin/python" -m pip install --quiet --no-index --find-links /opt/veriftools/wheels z3-solver >/dev/null
"$V/bin/python" -c "import z3, numpy; print('overlay venv ready: z3', z3.get_version_string(), 'numpy', numpy.__version__)"
