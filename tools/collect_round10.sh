#!/bin/sh
# collect5.sh Cxx : store round-6 seeds s1/s2/s3 as <id>-f/-g/-h and try them
p=$1
for n in 1; do
  s=t
  d=/verif/seeded/$p-$s
  [ -f /tmp/mut10_$p/s${n}_patch.diff ] || { echo "$p s$n missing"; continue; }
  mkdir -p $d
  cp /tmp/mut10_$p/s${n}_patch.diff $d/patch.diff; cp /tmp/mut10_$p/s${n}_demo.py $d/demo.py
  python3 - $p $s $n <<'PY'
import json,sys
p,s,n=sys.argv[1:4]
note=open(f"/tmp/mut10_{p}/s{n}_note.txt").read()
json.dump({"property":p,"origin":"independent sub-agent (tenth round: one seed per property in anchored functions not touched by earlier seeds), given the property text, the names of the code paths it is about and a scratch worktree","needs_to_manifest":note,"ran":"see detection in DESIGN.md section 10"},open(f"/verif/seeded/{p}-{s}/meta.json","w"),indent=1)
PY
  echo "### $p-$s"; MPLBACKEND=Agg /verif/tools/try_seed_wt.sh $p-$s
done
