#!/bin/sh
# tools/regress_seeds.sh [jobs] - try every stored seed again (scratch worktrees), 3 at a time by default; prints one line per seed
J=${1:-3}
cd /verif/seeded && ls | xargs -P "$J" -I{} sh -c 'r=$(MPLBACKEND=Agg /verif/tools/try_seed_wt.sh {} 2>&1 | grep -E "check_exit|demo_with" | tr "\n" " "); echo "{} $r"'
